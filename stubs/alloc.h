/* allocator model.
 * ASSUMED: ares_malloc/ares_realloc/ares_free are the default libc allocator; every allocation may fail nondeterministically (custom user allocators out of scope)
 */
#ifndef VERIF_ALLOC_H
#define VERIF_ALLOC_H
#include "libc_models.h"
#ifdef VERIF_NATIVE
/* native replay: plain libc allocator, failures replayed from the counterexample */
void *ares_malloc(size_t n) { if (n == 0) return NULL; if (nondet_bool()) return NULL; return malloc(n); }
void ares_free(void *p) { free(p); }
void *ares_malloc_zero(size_t n) { void *p = ares_malloc(n); if (p) memset(p, 0, n); return p; }
void *ares_realloc(void *p, size_t n) { if (nondet_bool()) return NULL; return realloc(p, n); }
void *ares_realloc_zero(void *p, size_t o, size_t n) { if (nondet_bool()) return NULL; void *q = realloc(p, n); if (q && n > o) memset((char *)q + o, 0, n - o); return q; }
#else
#ifdef VERIF_NO_ALLOC_FAIL
#define ALLOC_FAILS 0
#else
#define ALLOC_FAILS nondet_bool()
#endif
void *ares_malloc(size_t n)
{
  if (n == 0) return NULL;
  if (ALLOC_FAILS) return NULL;
  void *p = malloc(n);
  __CPROVER_assume(p != NULL);
  return p;
}
void ares_free(void *p) { free(p); }
void *ares_malloc_zero(size_t n)
{
  /* calloc: CBMC zero-initialises the new object for every later typed view (a byte-wise memset of a
   * symbolic-size object does NOT turn pointer-typed members into NULL in CBMC) */
  if (n == 0) return NULL;
  if (ALLOC_FAILS) return NULL;
  void *p = calloc(1, n);
  __CPROVER_assume(p != NULL);
  return p;
}
#ifdef VERIF_EXACT_LIBC
/* bounded (B-tier) harnesses: exact semantics, small sizes */
void *ares_realloc_zero(void *ptr, size_t orig_size, size_t new_size)
{
  if (ALLOC_FAILS) return NULL;
  unsigned char *q = malloc(new_size);
  __CPROVER_assume(q != NULL);
  __CPROVER_array_set(q, 0);
  if (ptr != NULL) for (size_t i = 0; i < orig_size; i++) if (i < new_size) q[i] = ((unsigned char *)ptr)[i];
  if (ptr != NULL) free(ptr);
  return q;
}
void *ares_realloc(void *p, size_t n)
{
  if (ALLOC_FAILS) return NULL;
  unsigned char *q = malloc(n);
  __CPROVER_assume(q != NULL);
  size_t o = p != NULL ? __CPROVER_OBJECT_SIZE(p) : 0;
  for (size_t i = 0; i < o; i++) if (i < n) q[i] = ((unsigned char *)p)[i];
  if (p != NULL) free(p);
  return q;
}
#else
void *ares_realloc(void *p, size_t n)
{
  if (nondet_bool()) return NULL;
  void *q = malloc(n);
  __CPROVER_assume(q != NULL);
  if (p != NULL) free(p);
  return q;
}
void *ares_realloc_zero(void *ptr, size_t orig_size, size_t new_size)
{
  void *p = ares_realloc(ptr, new_size);
  return p;
}
#endif
#endif /* VERIF_NATIVE */
#endif
