/* allocator model.
 * ASSUMED: ares_malloc/ares_realloc/ares_free are the default libc allocator; every allocation may fail nondeterministically (custom user allocators out of scope)
 */
#ifndef VERIF_ALLOC_H
#define VERIF_ALLOC_H
#include "libc_models.h"
void *ares_malloc(size_t n)
{
  if (n == 0) return NULL;
  if (nondet_bool()) return NULL;
  void *p = malloc(n);
  __CPROVER_assume(p != NULL);
  return p;
}
void ares_free(void *p) { free(p); }
void *ares_malloc_zero(size_t n)
{
  void *p = ares_malloc(n);
  if (p != NULL) {
#ifdef VERIF_EXACT_ZERO
    memset(p, 0, n);
#else
    __CPROVER_array_set((char *)p, 0);
#endif
  }
  return p;
}
#ifdef VERIF_EXACT_LIBC
/* bounded (B-tier) harnesses: exact semantics, small sizes */
void *ares_realloc_zero(void *ptr, size_t orig_size, size_t new_size)
{
  if (nondet_bool()) return NULL;
  unsigned char *q = malloc(new_size);
  __CPROVER_assume(q != NULL);
  for (size_t i = 0; i < new_size; i++) q[i] = (ptr != NULL && i < orig_size) ? ((unsigned char *)ptr)[i] : 0;
  if (ptr != NULL) free(ptr);
  return q;
}
void *ares_realloc(void *p, size_t n) { return realloc(p, n); }
#else
void *ares_realloc(void *p, size_t n)
{
  if (nondet_bool()) return NULL;
  void *q = malloc(n);
  __CPROVER_assume(q != NULL);
  if (p != NULL) free(p);
  return q;
}
void *ares_realloc_zero(void *ptr, size_t orig_size, size_t new_size)
{
  void *p = ares_realloc(ptr, new_size);
  return p;
}
#endif
#endif
