/* libc models used by P-tier wrappers.
 * ASSUMED: memcpy/memmove/memset/realloc with a symbolic length are modelled as "check r_ok/w_ok, then havoc the destination" (over-approximation: byte contents after such a copy are unknown to the proof; safety, lengths and frames transfer)
 */
#ifndef VERIF_LIBC_MODELS_H
#define VERIF_LIBC_MODELS_H
#include <stddef.h>
#include <stdlib.h>
#include <string.h>
#include "nd.h"
static void *v_memcpy(void *dst, const void *src, size_t n)
{
  __CPROVER_assert(n == 0 || __CPROVER_r_ok(src, n), "memcpy source readable for n bytes");
  __CPROVER_assert(n == 0 || __CPROVER_w_ok(dst, n), "memcpy destination writable for n bytes");
  if (n > 0) __CPROVER_havoc_slice(dst, n);
  return dst;
}
static void *v_memmove(void *dst, const void *src, size_t n)
{
  __CPROVER_assert(n == 0 || __CPROVER_r_ok(src, n), "memmove source readable for n bytes");
  __CPROVER_assert(n == 0 || __CPROVER_w_ok(dst, n), "memmove destination writable for n bytes");
  if (n > 0) __CPROVER_havoc_slice(dst, n);
  return dst;
}
static void *v_memset(void *dst, int c, size_t n)
{
  __CPROVER_assert(n == 0 || __CPROVER_w_ok(dst, n), "memset destination writable for n bytes");
  if (n > 0) __CPROVER_havoc_slice(dst, n);
  return dst;
}
/* memchr: result is NULL or a pointer into [s, s+n) */
static void *v_memchr(const void *s, int c, size_t n)
{
  __CPROVER_assert(n == 0 || __CPROVER_r_ok(s, n), "memchr source readable for n bytes");
  if (n == 0 || nondet_bool()) return NULL;
  size_t k = nondet_size();
  __CPROVER_assume(k < n);
  return (unsigned char *)s + k;
}
/* memcmp: reads both operands, result unconstrained */
static int v_memcmp(const void *a, const void *b, size_t n)
{
  __CPROVER_assert(n == 0 || __CPROVER_r_ok(a, n), "memcmp first operand readable for n bytes");
  __CPROVER_assert(n == 0 || __CPROVER_r_ok(b, n), "memcmp second operand readable for n bytes");
  return nondet_int();
}
/* exact small-size models for bounded (B-tier) harnesses: plain byte loops, unwound by --unwind */
static void *x_memmove(void *dst, const void *src, size_t n)
{
  unsigned char tmp[64]; __CPROVER_assert(n <= 64, "bounded harness: memmove size within the stated bound");
  for (size_t i = 0; i < n; i++) tmp[i] = ((const unsigned char *)src)[i];
  for (size_t i = 0; i < n; i++) ((unsigned char *)dst)[i] = tmp[i];
  return dst;
}
static void *x_memset(void *dst, int c, size_t n)
{
  for (size_t i = 0; i < n; i++) ((unsigned char *)dst)[i] = (unsigned char)c;
  return dst;
}
#endif
