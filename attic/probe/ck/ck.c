#include "src/lib/ares_cookie.c"
_Bool nondet_bool(void); size_t nondet_size(void);
/* ---- ghost record model for the OPT cookie option (assumed contracts of record getters/setters) ---- */
static ares_dns_rr_t g_req_rr, g_resp_rr;
_Bool g_req_has_opt, g_resp_has_opt;
_Bool g_req_has_cookie, g_resp_has_cookie;
unsigned char g_req_cookie[40], g_resp_cookie[48]; size_t g_req_cookie_len, g_resp_cookie_len;
ares_dns_rcode_t g_resp_rcode;
const ares_dns_record_t *g_req, *g_resp;
int g_set_opt_calls, g_del_opt_calls; unsigned char g_sent[40]; size_t g_sent_len;
int g_requeue_calls; ares_bool_t g_requeue_inc;

const ares_dns_rr_t *ares_dns_get_opt_rr_const(const ares_dns_record_t *rec){ if (rec==g_req) return g_req_has_opt?&g_req_rr:NULL; return g_resp_has_opt?&g_resp_rr:NULL; }
ares_dns_rr_t *ares_dns_get_opt_rr(ares_dns_record_t *rec){ return g_req_has_opt?&g_req_rr:NULL; }
const ares_dns_record_t *g_cur; 
ares_bool_t ares_dns_rr_get_opt_byid(const ares_dns_rr_t *rr, ares_dns_rr_key_t key, unsigned short opt, const unsigned char **val, size_t *val_len){
  /* which record is meant is tracked by g_cur set in harness order: validate fetches resp first, then req */
  if (rr == &g_resp_rr) { if(!g_resp_has_cookie) return ARES_FALSE; *val=g_resp_cookie; *val_len=g_resp_cookie_len; return ARES_TRUE; }
  if(!g_req_has_cookie) return ARES_FALSE; *val=g_req_cookie; *val_len=g_req_cookie_len; return ARES_TRUE; }
ares_status_t ares_dns_rr_set_opt(ares_dns_rr_t *rr, ares_dns_rr_key_t key, unsigned short opt, const unsigned char *val, size_t val_len){
  __CPROVER_assert(opt==ARES_OPT_PARAM_COOKIE,"cookie option id"); __CPROVER_assert(val_len<=40 && __CPROVER_r_ok(val,val_len),"cookie value readable");
  g_set_opt_calls++; g_sent_len=val_len; for(size_t i=0;i<40;i++) if(i<val_len) g_sent[i]=val[i]; return nondet_bool()?ARES_SUCCESS:ARES_ENOMEM; }
ares_status_t ares_dns_rr_del_opt_byid(ares_dns_rr_t *rr, ares_dns_rr_key_t key, unsigned short opt){ g_del_opt_calls++; return ARES_SUCCESS; }
ares_dns_rcode_t ares_dns_record_get_rcode(const ares_dns_record_t *rec){ return g_resp_rcode; }
void ares_rand_bytes(ares_rand_state *state, unsigned char *buf, size_t len){ __CPROVER_havoc_slice(buf,len); }
ares_status_t ares_requeue_query(ares_query_t *query, const ares_timeval_t *now, ares_status_t status, ares_bool_t inc_try_count, const ares_dns_record_t *dnsrec, ares_array_t **requeue){ g_requeue_calls++; g_requeue_inc=inc_try_count; return ARES_SUCCESS; }
void ares_timeval_diff(ares_timeval_t *d, const ares_timeval_t *a, const ares_timeval_t *b){ d->sec=b->sec-a->sec; if(b->usec>a->usec) d->usec=b->usec-a->usec; else { d->sec-=1; d->usec=b->usec+1000000-a->usec; } }

void h_validate(void){
  ares_channel_t ch; ares_server_t srv; ares_conn_t conn; ares_query_t q; ares_timeval_t now; static char d1, d2; ares_dns_record_t *reqp=(ares_dns_record_t*)&d1, *respp=(ares_dns_record_t*)&d2;
  g_req_has_opt=nondet_bool(); g_resp_has_opt=nondet_bool(); g_req_has_cookie=nondet_bool(); g_resp_has_cookie=nondet_bool();
  g_req_cookie_len=nondet_size(); g_resp_cookie_len=nondet_size(); __CPROVER_havoc_slice(g_req_cookie,40); __CPROVER_havoc_slice(g_resp_cookie,48);
  { unsigned r; g_resp_rcode=(ares_dns_rcode_t)r; }
  srv.channel=&ch; conn.server=&srv; q.query=reqp; g_req=reqp; g_resp=respp; g_cur=g_resp;
  __CPROVER_assume(now.sec>=0 && now.sec < (1LL<<40) && now.usec<1000000);
  __CPROVER_assume(srv.cookie.server_len<=32 && g_req_cookie_len>=8 && g_req_cookie_len<=40 && g_resp_cookie_len<=48);
  __CPROVER_assume(!g_req_has_cookie || g_req_has_opt); __CPROVER_assume(!g_resp_has_cookie || g_resp_has_opt);
  __CPROVER_assume(q.cookie_try_count < 1000);
  ares_cookie_state_t st0=srv.cookie.state; size_t tc0=q.cookie_try_count; ares_bool_t tcp0=q.using_tcp;
  ares_array_t *rq=NULL;
  ares_status_t rv=ares_cookie_validate(&q, respp, &conn, &now, &rq);
  /* from the statement / RFC 7873 */
  __CPROVER_assert(srv.cookie.server_len<=32,"server cookie fits");
  if(rv==ARES_SUCCESS && g_req_has_cookie){
    __CPROVER_assert(!g_resp_has_cookie || (g_resp_cookie_len>=8 && g_resp_cookie_len<=40),"accepted cookie length 8..40");
    __CPROVER_assert(!g_resp_has_cookie || memcmp(g_resp_cookie,g_req_cookie,8)==0,"accepted cookie echoes client part");
    __CPROVER_assert(!(st0==ARES_COOKIE_SUPPORTED && !(g_resp_has_cookie && g_resp_cookie_len>8)),"supporting server: response without server cookie is not accepted");
    __CPROVER_assert(g_resp_rcode!=ARES_RCODE_BADCOOKIE,"badcookie never accepted");
  }
  if(g_req_has_cookie && g_resp_rcode==ARES_RCODE_BADCOOKIE && g_resp_has_cookie && g_resp_cookie_len>=8 && g_resp_cookie_len<=40 && memcmp(g_resp_cookie,g_req_cookie,8)==0){
    __CPROVER_assert(g_requeue_calls==1 && g_requeue_inc==ARES_FALSE,"badcookie: one resend not counted as a try");
    __CPROVER_assert(q.cookie_try_count==tc0+1,"badcookie counter");
    __CPROVER_assert(q.cookie_try_count<3 || q.using_tcp==ARES_TRUE,"third badcookie falls back to tcp");
  } else __CPROVER_assert(g_requeue_calls==0,"no resend otherwise");
}
