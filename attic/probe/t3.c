#include <stdlib.h>
typedef void (*cb_t)(void *arg, int status);
struct q { cb_t cb; void *arg; int live; };
int g_cb_count;
struct q *g_victim;
_Bool nondet_bool(void);
/* adversarial user callback: may re-enter and release the victim */
void user_cb(void *arg, int status) { g_cb_count++; if (nondet_bool() && g_victim) { free(g_victim); g_victim = NULL; } }
void end_q(struct q *q, int status)
__CPROVER_requires(__CPROVER_is_fresh(q, sizeof(*q)) && q->cb == user_cb && g_victim == q && g_cb_count == 0)
__CPROVER_assigns(g_cb_count, g_victim, __CPROVER_object_whole(q))
__CPROVER_frees(q)
__CPROVER_ensures(g_cb_count == 1)
{
  q->cb(q->arg, status);
  free(q);
}
cb_t g_keep = user_cb;
void h(void){ struct q *q; int s; end_q(q, s); }
