#include <stdlib.h>
int f(unsigned n)
__CPROVER_requires(n < 1000)
__CPROVER_assigns()
__CPROVER_ensures(__CPROVER_return_value == 0)
{
  unsigned i;
  for (i = 0; i < n; i++)
  __CPROVER_assigns(i)
  __CPROVER_loop_invariant(i <= n)
  __CPROVER_decreases(n - i)
  {
    char *p = malloc(4);
    if (p) { p[0] = 1; free(p); }
  }
  return 0;
}
void h(void){ unsigned n; f(n); }
