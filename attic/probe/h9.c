#include "/repo/src/lib/ares_process.c"
/* callee contracts (stubs = assumed contracts, proved elsewhere) */
size_t nondet_size(void);
size_t g_base, g_nservers;
size_t ares_metrics_server_timeout(const ares_server_t *server, const ares_timeval_t *now) { return g_base; }
size_t ares_slist_len(const ares_slist_t *l) { return g_nservers; }
void ares_rand_bytes(ares_rand_state *state, unsigned char *buf, size_t len) { __CPROVER_havoc_slice(buf, len); }

void h(void) {
  ares_channel_t ch; ares_query_t q; ares_server_t s; ares_timeval_t now;
  q.channel = &ch;
  g_base = nondet_size(); g_nservers = nondet_size();
  size_t maxt = ch.maxtimeout;
  /* contract of ares_metrics_server_timeout: 250 <= r, and r <= maxtimeout if set else <= 5000 */
  __CPROVER_assume(g_base >= 250 && g_base <= (maxt ? maxt : 5000));
  __CPROVER_assume(maxt == 0 || maxt >= 250);
  __CPROVER_assume(g_nservers >= 1 && q.try_count / g_nservers < 64);
  size_t r = ares_calc_query_timeout(&q, &s, &now);
  __CPROVER_assert(r >= g_base, "attempt waits no less than base timeout");
  __CPROVER_assert(maxt == 0 || r <= maxt, "attempt waits no more than configured maximum");
}
