#include <stddef.h>
#include <stdlib.h>
#include "stubs.h"
#define memcpy v_memcpy
#define memmove v_memmove
#include "src/lib/str/ares_buf.c"
#include "src/lib/record/ares_dns_name.c"
#undef memcpy
#undef memmove
void *ares_malloc(size_t n){ if(n==0) return NULL; if(nondet_bool()) return NULL; void *p=malloc(n); __CPROVER_assume(p!=NULL); return p;}
void *ares_realloc(void *p, size_t n){ return v_realloc(p,n);}
void ares_free(void *p){ free(p);}
void *ares_malloc_zero(size_t n){ void *p=ares_malloc(n); if(p) memset(p,0,n); return p;}

#define CAP 70000
#define NCAP 1000000
#define CBUF_WF(b) ( __CPROVER_is_fresh(b, sizeof(*b)) && (b)->alloc_buf == NULL && (b)->alloc_buf_len == 0 && (b)->data_len <= CAP && (b)->data_len > 0 && \
   __CPROVER_is_fresh((b)->data, (b)->data_len) && (b)->offset <= (b)->data_len && \
   ((b)->tag_offset == (size_t)-1 || (b)->tag_offset <= (b)->offset))
/* dynamic buffer invariant, usable in requires (rw_ok form) */
#define DBUF_OK(b) ( __CPROVER_rw_ok(b, sizeof(*b)) && (b)->alloc_buf_len <= NCAP && (b)->offset == 0 && (b)->tag_offset == (size_t)-1 && \
   ((b)->alloc_buf_len == 0 ? ((b)->alloc_buf == NULL && (b)->data_len == 0) : (__CPROVER_rw_ok((b)->alloc_buf, (b)->alloc_buf_len) && (b)->data == (b)->alloc_buf && (b)->data_len < (b)->alloc_buf_len)) )
#define DBUF_ENS(b) ( (b)->alloc_buf_len <= NCAP && (b)->offset == 0 && (b)->tag_offset == (size_t)-1 && \
   ((b)->alloc_buf_len == 0 ? ((b)->alloc_buf == NULL && (b)->data_len == 0) : (__CPROVER_is_fresh((b)->alloc_buf, (b)->alloc_buf_len) && (b)->data == (b)->alloc_buf && (b)->data_len < (b)->alloc_buf_len)) )

/* client-side contracts for an OPAQUE growing buffer (module invariant of ares_buf proved in the buf cluster) */
ares_status_t ares_buf_append(ares_buf_t *buf, const unsigned char *data, size_t data_len)
__CPROVER_requires(__CPROVER_rw_ok(buf, sizeof(*buf)) && __CPROVER_r_ok(data, data_len))
__CPROVER_assigns(__CPROVER_object_whole(buf))
__CPROVER_ensures(__CPROVER_return_value == ARES_SUCCESS || __CPROVER_return_value == ARES_ENOMEM)
;
ares_status_t ares_buf_append_byte(ares_buf_t *buf, unsigned char b)
__CPROVER_requires(__CPROVER_rw_ok(buf, sizeof(*buf)))
__CPROVER_assigns(__CPROVER_object_whole(buf))
__CPROVER_ensures(__CPROVER_return_value == ARES_SUCCESS || __CPROVER_return_value == ARES_ENOMEM)
;
static ares_status_t ares_fetch_dnsname_into_buf(ares_buf_t *buf, ares_buf_t *dest, size_t len, ares_bool_t is_hostname)
__CPROVER_requires(__CPROVER_is_fresh(buf, sizeof(*buf)) && buf->alloc_buf == NULL && buf->data_len <= CAP && __CPROVER_is_fresh(buf->data, buf->data_len) && buf->offset <= buf->data_len)
__CPROVER_requires(dest == NULL || __CPROVER_is_fresh(dest, sizeof(*dest)))
__CPROVER_assigns(buf->offset; dest != NULL: __CPROVER_object_whole(dest))
__CPROVER_ensures(buf->offset == __CPROVER_old(buf->offset) + (__CPROVER_return_value == ARES_SUCCESS ? len : 0) && buf->offset <= buf->data_len)
__CPROVER_ensures(__CPROVER_return_value == ARES_SUCCESS ==> len > 0)
;
void h_fetch(void){ ares_buf_t *b,*d; size_t l; ares_bool_t hn; ares_fetch_dnsname_into_buf(b,d,l,hn); }
