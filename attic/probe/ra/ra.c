#include <stddef.h>
#include <stdlib.h>
#include "stubs.h"
#define memcpy v_memcpy
#define memmove v_memmove
#include "src/lib/str/ares_buf.c"
#include "src/lib/ares_process.c"
#undef memcpy
#undef memmove
void *ares_malloc(size_t n){ if(n==0) return NULL; if(nondet_bool()) return NULL; return malloc(n);}
void *ares_realloc(void *p, size_t n){ return v_realloc(p,n);}
void ares_free(void *p){ free(p);}
void *ares_malloc_zero(size_t n){ void *p=ares_malloc(n); if(p) __CPROVER_havoc_slice(p,n); return p;}

#define CAP 70000
/* ghost: frames handed to process_answer */
size_t g_frames; size_t g_last_off; size_t g_last_len; const unsigned char *g_base; _Bool g_conn_closed;

static ares_status_t process_answer(ares_channel_t *channel, const unsigned char *abuf, size_t alen, ares_conn_t *conn, const ares_timeval_t *now, ares_array_t **requeue)
__CPROVER_requires(alen == 0 || __CPROVER_r_ok(abuf, alen))
__CPROVER_requires(__CPROVER_rw_ok(requeue, sizeof(*requeue)))
__CPROVER_assigns(*requeue)
__CPROVER_ensures(1)
;
static void handle_conn_error(ares_conn_t *conn, ares_bool_t critical_failure, ares_status_t failure_status)
__CPROVER_assigns(g_conn_closed)
__CPROVER_ensures(g_conn_closed == 1)
;
size_t ares_array_len(const ares_array_t *arr) __CPROVER_assigns() __CPROVER_ensures(arr == NULL ==> __CPROVER_return_value == 0);
void ares_array_destroy(ares_array_t *arr) __CPROVER_requires(1) __CPROVER_assigns() __CPROVER_ensures(1);
ares_status_t ares_array_claim_at(void *dest, size_t dest_size, ares_array_t *arr, size_t idx) __CPROVER_requires(__CPROVER_w_ok(dest,dest_size)) __CPROVER_assigns(__CPROVER_object_whole(dest)) __CPROVER_ensures(1);

static ares_status_t read_answers(ares_conn_t *conn, const ares_timeval_t *now)
__CPROVER_requires(__CPROVER_is_fresh(conn, sizeof(*conn)) && __CPROVER_is_fresh(conn->server, sizeof(*conn->server)) && __CPROVER_is_fresh(conn->server->channel, sizeof(*conn->server->channel)))
__CPROVER_requires(__CPROVER_is_fresh(conn->in_buf, sizeof(*conn->in_buf)))
__CPROVER_requires(conn->in_buf->alloc_buf_len <= CAP && conn->in_buf->alloc_buf_len > 0 && __CPROVER_is_fresh(conn->in_buf->alloc_buf, conn->in_buf->alloc_buf_len) && __CPROVER_pointer_equals(conn->in_buf->data, conn->in_buf->alloc_buf) && conn->in_buf->data_len < conn->in_buf->alloc_buf_len && conn->in_buf->offset <= conn->in_buf->data_len && conn->in_buf->tag_offset == (size_t)-1)
__CPROVER_assigns(conn->in_buf->offset, conn->in_buf->tag_offset, g_conn_closed)
__CPROVER_ensures(conn->in_buf->offset <= conn->in_buf->data_len && conn->in_buf->offset >= __CPROVER_old(conn->in_buf->offset))
/* statement C20: whatever is left unread is an incomplete frame (or a failed connection) */
__CPROVER_ensures(g_conn_closed || conn->in_buf->data_len - conn->in_buf->offset < 2 ||
   (size_t)((conn->in_buf->data[conn->in_buf->offset] << 8) | conn->in_buf->data[conn->in_buf->offset+1]) > conn->in_buf->data_len - conn->in_buf->offset - 2)
__CPROVER_ensures(g_conn_closed || conn->in_buf->tag_offset == (size_t)-1)
;
void h(void){ ares_conn_t *c; const ares_timeval_t *now; g_conn_closed = 0; read_answers(c, now); }
void *ares_htable_szvp_get_direct(const ares_htable_szvp_t *htable, size_t key) __CPROVER_assigns() __CPROVER_ensures(1);
ares_status_t ares_send_query(ares_server_t *requested_server, ares_query_t *query, const ares_timeval_t *now) __CPROVER_assigns() __CPROVER_ensures(1);
