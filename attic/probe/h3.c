#include "/repo/src/lib/str/ares_buf.c"

#define BUF_WF(b) ( __CPROVER_is_fresh(b, sizeof(*b)) && (b)->alloc_buf == NULL && (b)->data_len <= 70000 && \
   __CPROVER_is_fresh((b)->data, (b)->data_len) && (b)->offset <= (b)->data_len && \
   ((b)->tag_offset == SIZE_MAX || (b)->tag_offset <= (b)->offset))

size_t ares_buf_consume_whitespace(ares_buf_t *buf, ares_bool_t include_linefeed)
__CPROVER_requires(BUF_WF(buf))
__CPROVER_assigns(buf->offset)
__CPROVER_ensures(buf->offset == __CPROVER_old(buf->offset) + __CPROVER_return_value && buf->offset <= buf->data_len)
;

void h(void) {
  ares_buf_t *buf; ares_bool_t lf;
  ares_buf_consume_whitespace(buf, lf);
}
