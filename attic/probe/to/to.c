#include "src/lib/ares_timeout.c"
_Bool nondet_bool(void);
static ares_query_t g_q; static char node_tok; _Bool g_has; ares_timeval_t g_now;
ares_slist_node_t *ares_slist_node_first(const ares_slist_t *l){ return g_has ? (ares_slist_node_t*)&node_tok : NULL; }
void *ares_slist_node_val(ares_slist_node_t *n){ return &g_q; }
void ares_tvnow(ares_timeval_t *now){ *now = g_now; }
void h_timeout(void){
  ares_channel_t ch; struct timeval maxtv, tvbuf, *mp = nondet_bool() ? &maxtv : NULL;
  g_has = nondet_bool();
  __CPROVER_assume(g_now.sec >= 0 && g_now.sec < (1LL<<40) && g_now.usec < 1000000);
  __CPROVER_assume(g_q.timeout.sec >= 0 && g_q.timeout.sec < (1LL<<40) && g_q.timeout.usec < 1000000);
  __CPROVER_assume(maxtv.tv_sec >= 0 && maxtv.tv_sec < (1LL<<40) && maxtv.tv_usec >= 0 && maxtv.tv_usec < 1000000);
  struct timeval *r = ares_timeout_int(&ch, mp, &tvbuf);
  __CPROVER_assert(r == mp || r == &tvbuf, "result is one of the two buffers");
  if (!g_has) { __CPROVER_assert(r == mp, "no queries: caller's maximum"); return; }
  __CPROVER_assert(r != NULL, "outstanding query: a hint is returned");
  __CPROVER_assert(r->tv_sec >= 0 && r->tv_usec >= 0 && r->tv_usec < 1000000, "C07: hint never negative, normalised");
  /* not later than the earliest deadline */
  long long rem_us = (g_q.timeout.sec - g_now.sec) * 1000000LL + ((long long)g_q.timeout.usec - (long long)g_now.usec); if (rem_us < 0) rem_us = 0;
  long long hint_us = (long long)r->tv_sec * 1000000LL + r->tv_usec;
  __CPROVER_assert(hint_us <= rem_us, "C07: hint not later than the earliest deadline");
  if (mp) __CPROVER_assert(hint_us <= (long long)maxtv.tv_sec*1000000LL + maxtv.tv_usec, "C07: hint not later than the caller's maximum");
}
