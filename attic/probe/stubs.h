/* libc models: safety-checked havoc (content abstracted) */
_Bool nondet_bool(void);
size_t nondet_size(void);
void *v_memcpy(void *dst, const void *src, size_t n) {
  __CPROVER_assert(n == 0 || __CPROVER_r_ok(src, n), "memcpy src readable");
  __CPROVER_assert(n == 0 || __CPROVER_w_ok(dst, n), "memcpy dst writable");
  if (n > 0) __CPROVER_havoc_slice(dst, n);
  return dst;
}
void *v_memmove(void *dst, const void *src, size_t n) {
  __CPROVER_assert(n == 0 || __CPROVER_r_ok(src, n), "memmove src readable");
  __CPROVER_assert(n == 0 || __CPROVER_w_ok(dst, n), "memmove dst writable");
  if (n > 0) __CPROVER_havoc_slice(dst, n);
  return dst;
}
void *v_realloc(void *p, size_t n) {
  if (nondet_bool()) return NULL;
  void *q = malloc(n);
  __CPROVER_assume(q != NULL);
  if (p) free(p);
  return q;
}
