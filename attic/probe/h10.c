#include <stddef.h>
#include <stdlib.h>
#include "stubs.h"
#define memcpy v_memcpy
#define memmove v_memmove
#include "/repo/src/lib/str/ares_buf.c"
#include "/repo/src/lib/record/ares_dns_parse.c"
void *ares_malloc(size_t n){ if(n==0) return NULL; if(nondet_bool()) return NULL; return malloc(n);}
void *ares_realloc(void *p, size_t n){ return v_realloc(p,n);}
void ares_free(void *p){ free(p);}
void *ares_malloc_zero(size_t n){ void *p=ares_malloc(n); if(p) memset(p,0,n); return p;}
ares_status_t nondet_status(void);
/* assumed contracts of record setters (proved in the record cluster) */
ares_status_t ares_dns_rr_set_u16(ares_dns_rr_t *rr, ares_dns_rr_key_t key, unsigned short v){ return nondet_bool()?ARES_SUCCESS:ARES_EFORMERR; }
ares_status_t ares_dns_rr_set_u8(ares_dns_rr_t *rr, ares_dns_rr_key_t key, unsigned char v){ return nondet_bool()?ARES_SUCCESS:ARES_EFORMERR; }
/* takes ownership of val on success only */
ares_status_t ares_dns_rr_set_opt_own(ares_dns_rr_t *rr, ares_dns_rr_key_t key, unsigned short opt, unsigned char *val, size_t val_len){
  if (nondet_bool()) return ARES_ENOMEM;
  free(val); /* ownership transferred: modelled as consumed */
  return ARES_SUCCESS;
}
#define MAXLEN 70000
#define CBUF_WF(b) ( __CPROVER_is_fresh(b, sizeof(*b)) && (b)->alloc_buf == NULL && (b)->alloc_buf_len == 0 && (b)->data_len <= MAXLEN && (b)->data_len > 0 && \
   __CPROVER_is_fresh((b)->data, (b)->data_len) && (b)->offset <= (b)->data_len && \
   ((b)->tag_offset == SIZE_MAX || (b)->tag_offset <= (b)->offset))

static ares_status_t ares_dns_parse_rr_opt(ares_buf_t *buf, ares_dns_rr_t *rr, size_t rdlength, unsigned short raw_class, unsigned int raw_ttl)
__CPROVER_requires(CBUF_WF(buf))
__CPROVER_requires(__CPROVER_is_fresh(rr, sizeof(*rr)) && __CPROVER_is_fresh(rr->parent, sizeof(*rr->parent)))
__CPROVER_requires(rdlength <= 65535)
__CPROVER_assigns(buf->offset, rr->parent->raw_rcode)
__CPROVER_ensures(buf->offset <= buf->data_len && buf->offset >= __CPROVER_old(buf->offset))
;
void h(void) { ares_buf_t *buf; ares_dns_rr_t *rr; size_t rd; unsigned short c; unsigned int t; ares_dns_parse_rr_opt(buf, rr, rd, c, t); }
