#include "/repo/src/lib/str/ares_buf.c"
_Bool nondet_bool(void);
void *ares_malloc(size_t n){ if(n==0) return NULL; if(nondet_bool()) return NULL; return malloc(n);}
void *ares_realloc(void *p, size_t n){ if(nondet_bool()) return NULL; return realloc(p,n);}
void ares_free(void *p){ free(p);}
void *ares_malloc_zero(size_t n){ void *p=ares_malloc(n); if(p) memset(p,0,n); return p;}

#ifndef MAXLEN
#define MAXLEN 70000
#endif
/* dynamic (writable) buffer well-formedness */
#define DBUF_WF(b) ( __CPROVER_is_fresh(b, sizeof(*b)) && (b)->alloc_buf_len <= MAXLEN && (b)->alloc_buf_len > 0 && \
   __CPROVER_is_fresh((b)->alloc_buf, (b)->alloc_buf_len) && (b)->data == (b)->alloc_buf && \
   (b)->data_len < (b)->alloc_buf_len && (b)->offset <= (b)->data_len && \
   ((b)->tag_offset == SIZE_MAX || (b)->tag_offset <= (b)->offset))

ares_status_t ares_buf_append(ares_buf_t *buf, const unsigned char *data, size_t data_len)
__CPROVER_requires(DBUF_WF(buf))
__CPROVER_requires(data_len <= MAXLEN && __CPROVER_is_fresh(data, data_len))
__CPROVER_assigns(__CPROVER_object_whole(buf), __CPROVER_object_whole(buf->alloc_buf))
__CPROVER_frees(buf->alloc_buf)
__CPROVER_ensures(__CPROVER_return_value == ARES_SUCCESS || __CPROVER_return_value == ARES_ENOMEM)
__CPROVER_ensures(__CPROVER_return_value == ARES_SUCCESS ==> (buf->data_len - buf->offset == __CPROVER_old(buf->data_len) - __CPROVER_old(buf->offset) + data_len))
__CPROVER_ensures(buf->offset <= buf->data_len && buf->data_len < buf->alloc_buf_len && buf->data == buf->alloc_buf)
;
void h(void) {
  ares_buf_t *buf; const unsigned char *d; size_t n;
  ares_buf_append(buf, d, n);
}
