#include "src/lib/dsa/ares_llist.c"
#include "src/lib/dsa/ares_htable.c"
#include "src/lib/dsa/ares_htable_szvp.c"
_Bool nondet_bool(void); size_t nondet_size(void);
void *ares_malloc(size_t n){ if(n==0) return NULL; if(nondet_bool()) return NULL; return malloc(n);}
void ares_free(void *p){ free(p);}
void *ares_malloc_zero(size_t n){ void *p=ares_malloc(n); if(p) memset(p,0,n); return p;}
time_t time(time_t *t){ time_t r; return r; }
void h(void){
  ares_htable_szvp_t *t = ares_htable_szvp_create(NULL);
  if(!t) return;
  size_t k1=nondet_size(), k2=nondet_size(); static char v1, v2, v3;
  ares_bool_t i1 = ares_htable_szvp_insert(t,k1,&v1);
  ares_bool_t i2 = ares_htable_szvp_insert(t,k2,&v2);
  if(i1 && i2){
    void *g1=ares_htable_szvp_get_direct(t,k1), *g2=ares_htable_szvp_get_direct(t,k2);
    __CPROVER_assert(g2==&v2,"latest value for k2");
    __CPROVER_assert(k1==k2 ? g1==&v2 : g1==&v1,"k1 maps to its latest value");
    __CPROVER_assert(ares_htable_szvp_num_keys(t)==(k1==k2?1:2),"key count");
    ares_bool_t r=ares_htable_szvp_remove(t,k1);
    __CPROVER_assert(r,"remove present key");
    __CPROVER_assert(ares_htable_szvp_get_direct(t,k1)==NULL,"removed key absent");
    __CPROVER_assert(k1==k2 || ares_htable_szvp_get_direct(t,k2)==&v2,"other key untouched");
  }
  ares_htable_szvp_destroy(t);
}
