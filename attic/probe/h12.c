#include "/repo/src/lib/dsa/ares_slist.c"
_Bool nondet_bool(void);
void *ares_malloc(size_t n){ if(n==0) return NULL; if(nondet_bool()) return NULL; return malloc(n);}
void ares_free(void *p){ free(p);}
void *ares_malloc_zero(size_t n){ void *p=ares_malloc(n); if(p) memset(p,0,n); return p;}
void *ares_realloc_zero(void *ptr, size_t o, size_t n){ void *p; if(nondet_bool()) return NULL; p=realloc(ptr,n); if(p && n>o) memset((char*)p+o,0,n-o); return p;}
void ares_rand_bytes(ares_rand_state *state, unsigned char *buf, size_t len) { __CPROVER_havoc_slice(buf, len); }
size_t ares_round_up_pow2(size_t n){ size_t r; __CPROVER_assume(r>=n); return r;}
size_t ares_log2(size_t n){ size_t r; __CPROVER_assume(r<=6); return r;}
static int cmp(const void *a, const void *b){ unsigned x=*(const unsigned*)a, y=*(const unsigned*)b; return x<y?-1:(x>y?1:0);}
#ifndef N
#define N 3
#endif
void h(void){
  ares_rand_state *rs = (ares_rand_state*)malloc(1);
  ares_slist_t *l = ares_slist_create(rs, cmp, NULL);
  if(!l) return;
  unsigned v[N]; ares_slist_node_t *nd[N]; size_t cnt=0;
  for(size_t i=0;i<N;i++){ nd[i]=ares_slist_insert(l,&v[i]); if(nd[i]) cnt++; }
  __CPROVER_assert(ares_slist_len(l)==cnt,"len");
  /* sorted, no loss */
  size_t seen=0; ares_slist_node_t *n=ares_slist_node_first(l); unsigned prev=0;
  while(n){ unsigned *p=ares_slist_node_val(n); __CPROVER_assert(seen==0||prev<=*p,"sorted"); prev=*p; seen++; n=ares_slist_node_next(n);}
  __CPROVER_assert(seen==cnt,"no loss or dup");
  ares_slist_destroy(l);
}
