/* native replay driver for the "const reader" harness family: rebuilds BUF_CONST_WF input from a replay file */
#include "src/lib/str/ares_buf.c"
#include <stdio.h>
int main(int argc,char**argv){
  size_t data_len=strtoull(argv[1],0,10), offset=strtoull(argv[2],0,10), tag=strtoull(argv[3],0,10);
  unsigned char *data=malloc(data_len); memset(data,0xAB,data_len);     /* bytes not constrained by the counterexample */
  ares_buf_t b; memset(&b,0,sizeof b); b.data=data; b.data_len=data_len; b.offset=offset; b.tag_offset=tag;
  unsigned short u16=0; size_t old=b.offset;
  ares_status_t rv=ares_buf_fetch_be16(&b,&u16);
  /* ENS_ares_buf_fetch_be16 evaluated at run time */
  int ok = (rv==ARES_SUCCESS||rv==ARES_EBADRESP) && (rv!=ARES_SUCCESS || (b.offset==old+2 && b.offset<=b.data_len)) && (rv==ARES_SUCCESS || b.offset==old);
  printf("rv=%d offset %zu -> %zu postcondition %s\n",(int)rv,old,b.offset,ok?"holds":"VIOLATED"); return ok?0:1; }
