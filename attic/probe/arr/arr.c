#include <stddef.h>
#include <stdlib.h>
#include "stubs.h"
#define memcpy v_memcpy
#define memmove v_memmove
#include "src/lib/dsa/ares_array.c"
#undef memcpy
#undef memmove
void *ares_malloc(size_t n){ if(n==0) return NULL; if(nondet_bool()) return NULL; return malloc(n);}
void *ares_realloc(void *p, size_t n){ return v_realloc(p,n);}
void ares_free(void *p){ free(p);}
void *ares_malloc_zero(size_t n){ void *p=ares_malloc(n); if(p) __CPROVER_havoc_slice(p,n); return p;}
void *ares_realloc_zero(void *ptr, size_t o, size_t n){ return ares_realloc(ptr,n); }
/* contract of ares_round_up_pow2 (proved in the math cluster): smallest power of two >= n for n <= 2^62 */
size_t ares_round_up_pow2(size_t n){ size_t r; __CPROVER_assume(r >= n && (r & (r-1)) == 0 && (n <= 1 || r/2 < n) && r >= 1); return r; }

#define MAXCNT 4096
#define MAXMS 64
#ifndef MS
#define MS 8
#endif
#define ARR_WF(a) ( __CPROVER_is_fresh(a, sizeof(*a)) && (a)->member_size == MS && \
   (a)->alloc_cnt <= MAXCNT && (a)->offset <= (a)->alloc_cnt && (a)->cnt <= (a)->alloc_cnt - (a)->offset && \
   ((a)->alloc_cnt == 0 ? (a)->arr == NULL : __CPROVER_is_fresh((a)->arr, (a)->alloc_cnt * (a)->member_size)) )
#define ARR_INV(a) ( (a)->member_size == MS && (a)->alloc_cnt <= 2*MAXCNT && (a)->offset <= (a)->alloc_cnt && (a)->cnt <= (a)->alloc_cnt - (a)->offset && \
   ((a)->alloc_cnt == 0 ? (a)->arr == NULL : __CPROVER_rw_ok((a)->arr, (a)->alloc_cnt * (a)->member_size)) )

ares_status_t ares_array_insert_at(void **elem_ptr, ares_array_t *arr, size_t idx)
__CPROVER_requires(ARR_WF(arr))
__CPROVER_requires(elem_ptr == NULL || __CPROVER_is_fresh(elem_ptr, sizeof(*elem_ptr)))
__CPROVER_assigns(__CPROVER_object_whole(arr), __CPROVER_object_whole(arr->arr); elem_ptr != NULL: *elem_ptr)
__CPROVER_frees(arr->arr)
__CPROVER_ensures(ARR_INV(arr))
__CPROVER_ensures(__CPROVER_return_value == ARES_SUCCESS || __CPROVER_return_value == ARES_ENOMEM || __CPROVER_return_value == ARES_EFORMERR)
/* taken from the ADT: inserting at a valid index can only fail for lack of memory */
__CPROVER_ensures(idx <= __CPROVER_old(arr->cnt) ==> __CPROVER_return_value != ARES_EFORMERR)
__CPROVER_ensures(idx >  __CPROVER_old(arr->cnt) ==> __CPROVER_return_value == ARES_EFORMERR)
__CPROVER_ensures(__CPROVER_return_value == ARES_SUCCESS ==> arr->cnt == __CPROVER_old(arr->cnt) + 1)
__CPROVER_ensures(__CPROVER_return_value != ARES_SUCCESS ==> arr->cnt == __CPROVER_old(arr->cnt))
__CPROVER_ensures((__CPROVER_return_value == ARES_SUCCESS && elem_ptr != NULL) ==> *elem_ptr == (unsigned char *)arr->arr + (idx + arr->offset) * arr->member_size)
;
void h(void){ void **e; ares_array_t *a; size_t i; ares_array_insert_at(e,a,i); }

ares_status_t ares_array_claim_at(void *dest, size_t dest_size, ares_array_t *arr, size_t idx)
__CPROVER_requires(ARR_WF(arr))
__CPROVER_requires(dest == NULL || (dest_size <= MAXMS && __CPROVER_is_fresh(dest, dest_size)))
__CPROVER_assigns(arr->cnt, arr->offset, __CPROVER_object_whole(arr->arr); dest != NULL: __CPROVER_object_whole(dest))
__CPROVER_ensures(ARR_INV(arr))
__CPROVER_ensures((idx < __CPROVER_old(arr->cnt) && (dest == NULL || dest_size >= arr->member_size)) ==> (__CPROVER_return_value == ARES_SUCCESS && arr->cnt == __CPROVER_old(arr->cnt) - 1))
__CPROVER_ensures(__CPROVER_return_value != ARES_SUCCESS ==> (arr->cnt == __CPROVER_old(arr->cnt) && arr->offset == __CPROVER_old(arr->offset)))
;
void h2(void){ void *d; size_t ds; ares_array_t *a; size_t i; ares_array_claim_at(d,ds,a,i); }
