#include <stddef.h>
#include <stdlib.h>
#include "stubs.h"
#define memcpy v_memcpy
#define memmove v_memmove
#include "/repo/src/lib/str/ares_buf.c"
#include "/repo/src/lib/record/ares_dns_parse.c"
void *ares_malloc(size_t n){ if(n==0) return NULL; if(nondet_bool()) return NULL; return malloc(n);}
void *ares_realloc(void *p, size_t n){ return v_realloc(p,n);}
void ares_free(void *p){ free(p);}
void *ares_malloc_zero(size_t n){ void *p=ares_malloc(n); if(p) memset(p,0,n); return p;}
ares_status_t nondet_status(void);

ares_status_t ares_dns_rr_set_u16(ares_dns_rr_t *rr, ares_dns_rr_key_t key, unsigned short v)
__CPROVER_assigns() __CPROVER_ensures(__CPROVER_return_value == ARES_SUCCESS || __CPROVER_return_value == ARES_EFORMERR);
ares_status_t ares_dns_rr_set_u8(ares_dns_rr_t *rr, ares_dns_rr_key_t key, unsigned char v)
__CPROVER_assigns() __CPROVER_ensures(__CPROVER_return_value == ARES_SUCCESS || __CPROVER_return_value == ARES_EFORMERR);
ares_status_t ares_dns_rr_set_opt_own(ares_dns_rr_t *rr, ares_dns_rr_key_t key, unsigned short opt, unsigned char *val, size_t val_len)
__CPROVER_requires(val == NULL || __CPROVER_r_ok(val, val_len))
__CPROVER_assigns()
__CPROVER_ensures(__CPROVER_return_value == ARES_SUCCESS || __CPROVER_return_value == ARES_ENOMEM || __CPROVER_return_value == ARES_EFORMERR);
#define MAXLEN 70000
#define CBUF_WF(b) ( __CPROVER_is_fresh(b, sizeof(*b)) && (b)->alloc_buf == NULL && (b)->alloc_buf_len == 0 && (b)->data_len <= MAXLEN && (b)->data_len > 0 && \
   __CPROVER_is_fresh((b)->data, (b)->data_len) && (b)->offset <= (b)->data_len && \
   ((b)->tag_offset == SIZE_MAX || (b)->tag_offset <= (b)->offset))


#define CBUF_INV(b) ((b)->alloc_buf == NULL && (b)->data_len <= MAXLEN && (b)->offset <= (b)->data_len)
ares_status_t ares_buf_fetch_be16(ares_buf_t *buf, unsigned short *u16)
__CPROVER_requires(__CPROVER_rw_ok(buf, sizeof(*buf)) && CBUF_INV(buf) && __CPROVER_r_ok(buf->data, buf->data_len) && __CPROVER_w_ok(u16, sizeof(*u16)))
__CPROVER_assigns(buf->offset, *u16)
__CPROVER_ensures(__CPROVER_return_value == ARES_SUCCESS || __CPROVER_return_value == ARES_EBADRESP)
__CPROVER_ensures(buf->offset == __CPROVER_old(buf->offset) + (__CPROVER_return_value == ARES_SUCCESS ? 2 : 0) && buf->offset <= buf->data_len)
;
ares_status_t ares_buf_fetch_bytes_dup(ares_buf_t *buf, size_t len, ares_bool_t null_term, unsigned char **bytes)
__CPROVER_requires(__CPROVER_rw_ok(buf, sizeof(*buf)) && CBUF_INV(buf) && __CPROVER_r_ok(buf->data, buf->data_len) && __CPROVER_w_ok(bytes, sizeof(*bytes)))
__CPROVER_assigns(buf->offset, *bytes)
__CPROVER_ensures(__CPROVER_return_value == ARES_SUCCESS || __CPROVER_return_value == ARES_EBADRESP || __CPROVER_return_value == ARES_ENOMEM)
__CPROVER_ensures(buf->offset == __CPROVER_old(buf->offset) + (__CPROVER_return_value == ARES_SUCCESS ? len : 0) && buf->offset <= buf->data_len)
__CPROVER_ensures(__CPROVER_return_value == ARES_SUCCESS ==> (len > 0 && __CPROVER_is_fresh(*bytes, null_term ? len + 1 : len)))
;
static ares_status_t ares_dns_parse_rr_opt(ares_buf_t *buf, ares_dns_rr_t *rr, size_t rdlength, unsigned short raw_class, unsigned int raw_ttl)
__CPROVER_requires(CBUF_WF(buf))
__CPROVER_requires(__CPROVER_is_fresh(rr, sizeof(*rr)) && __CPROVER_is_fresh(rr->parent, sizeof(*rr->parent)))
__CPROVER_requires(rdlength <= 65535)
__CPROVER_assigns(buf->offset, rr->parent->raw_rcode)
__CPROVER_ensures(buf->offset <= buf->data_len && buf->offset >= __CPROVER_old(buf->offset))
;
void h(void) { ares_buf_t *buf; ares_dns_rr_t *rr; size_t rd; unsigned short c; unsigned int t; ares_dns_parse_rr_opt(buf, rr, rd, c, t); }
