#include "/repo/src/lib/dsa/ares_llist.c"
_Bool nondet_bool(void);
void *ares_malloc_zero(size_t n){ if(n==0) return NULL; if(nondet_bool()) return NULL; void *p=malloc(n); if(p) memset(p,0,n); return p;}
void ares_free(void *p){ free(p);}

/* window contract: node inserted before `at` (at != NULL, at in list) */
static void ares_llist_attach_at(ares_llist_t *list, ares_llist_insert_type_t type, ares_llist_node_t *at, ares_llist_node_t *node)
__CPROVER_requires(type == ARES__LLIST_INSERT_BEFORE)
__CPROVER_requires(__CPROVER_is_fresh(list, sizeof(*list)) && __CPROVER_is_fresh(node, sizeof(*node)) && __CPROVER_is_fresh(at, sizeof(*at)))
__CPROVER_requires(at->parent == list && list->head != NULL && list->tail != NULL && list->cnt >= 1 && list->cnt < (size_t)-1)
__CPROVER_requires(at->prev == NULL || (__CPROVER_is_fresh(at->prev, sizeof(*at)) && at->prev->next == at && at->prev->parent == list))
__CPROVER_requires((at->prev == NULL) ? __CPROVER_pointer_equals(list->head, at) : (__CPROVER_pointer_equals(list->head, at->prev) || __CPROVER_is_fresh(list->head, sizeof(*at))))
__CPROVER_assigns(list->head, list->tail, list->cnt, node->next, node->prev, node->parent, at->prev; at->prev != NULL: at->prev->next)
__CPROVER_ensures(node->next == at && at->prev == node && node->parent == list)
__CPROVER_ensures(node->prev == __CPROVER_old(at->prev))
__CPROVER_ensures(node->prev != NULL ==> node->prev->next == node)
__CPROVER_ensures((node->prev == NULL) == (list->head == node))
__CPROVER_ensures(list->cnt == __CPROVER_old(list->cnt) + 1)
;
void h(void) { ares_llist_t *l; ares_llist_insert_type_t t; ares_llist_node_t *at, *n; ares_llist_attach_at(l,t,at,n); }
