#include <stddef.h>
#include <stdlib.h>
#include "stubs.h"
#define memcpy v_memcpy
#define memmove v_memmove
#include "/repo/src/lib/str/ares_buf.c"
#include "mut_name.c"
void *ares_malloc(size_t n){ if(n==0) return NULL; if(nondet_bool()) return NULL; return malloc(n);}
void *ares_realloc(void *p, size_t n){ return v_realloc(p,n);}
void ares_free(void *p){ free(p);}
void *ares_malloc_zero(size_t n){ void *p=ares_malloc(n); if(p) memset(p,0,n); return p;}

#define MAXLEN 70000
#define CBUF_WF(b) ( __CPROVER_is_fresh(b, sizeof(*b)) && (b)->alloc_buf == NULL && (b)->alloc_buf_len == 0 && (b)->data_len <= MAXLEN && (b)->data_len > 0 && \
   __CPROVER_is_fresh((b)->data, (b)->data_len) && (b)->offset <= (b)->data_len && \
   ((b)->tag_offset == SIZE_MAX || (b)->tag_offset <= (b)->offset))

/* skip-mode: name == NULL : pure reader */
ares_status_t ares_dns_name_parse(ares_buf_t *buf, char **name, ares_bool_t is_hostname)
__CPROVER_requires(CBUF_WF(buf))
__CPROVER_requires(name == NULL)
__CPROVER_assigns(buf->offset)
__CPROVER_ensures(buf->offset <= buf->data_len)
__CPROVER_ensures(__CPROVER_return_value == ARES_SUCCESS ==> buf->offset > __CPROVER_old(buf->offset))
;
void h(void) {
  ares_buf_t *buf; char **name; ares_bool_t hn;
  ares_dns_name_parse(buf, name, hn);
}
