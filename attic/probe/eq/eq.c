#include "src/lib/ares_process.c"
_Bool nondet_bool(void);
/* ---------- ghost index model (assumed container contracts) ---------- */
static char tok_all, tok_conn, tok_tmo;              /* opaque node tokens */
_Bool g_in_all, g_in_conn, g_in_tmo, g_in_qid;       /* membership of THE query in the four indexes */
int   g_cb_count; _Bool g_released;
ares_query_t *g_q;

void ares_slist_node_destroy(ares_slist_node_t *n){ if(!n) return; __CPROVER_assert(n==(void*)&tok_tmo && g_in_tmo,"timeout node is live"); g_in_tmo=0; }
void ares_llist_node_destroy(ares_llist_node_t *n){ if(!n) return;
  if(n==(void*)&tok_all){ __CPROVER_assert(g_in_all,"all_queries node is live"); g_in_all=0; }
  else { __CPROVER_assert(n==(void*)&tok_conn && g_in_conn,"conn node is live"); g_in_conn=0; } }
ares_bool_t ares_htable_szvp_remove(ares_htable_szvp_t *h, size_t key){ g_in_qid=0; return ARES_TRUE; }
void ares_dns_record_destroy(ares_dns_record_t *r){}
void ares_free(void *p){ free(p); }
void ares_metrics_record(const ares_query_t *query, ares_server_t *server, ares_status_t status, const ares_dns_record_t *dnsrec){}
void ares_queue_notify_empty(ares_channel_t *channel){}

/* ---------- adversarial user callback = contract of "anything the public API lets a callback do" ---------- */
static void user_cb(void *arg, ares_status_t status, size_t timeouts, const ares_dns_record_t *dnsrec){
  g_cb_count++;
  if (nondet_bool() && g_in_all) {
    /* re-entrant ares_cancel(): every query reachable through all_queries gets ECANCELLED and is released */
    ares_query_t *q = g_q;
    g_in_all = 0; q->node_all_queries = NULL;
    g_cb_count++;                       /* its callback fires with ARES_ECANCELLED */
    ares_free_query(q);                 /* real code */
  }
}
ares_callback_dnsrec g_keep = user_cb;

void h_end_query(void){
  ares_channel_t ch; ares_server_t srv; ares_status_t st;
  ares_query_t *q = malloc(sizeof(*q)); __CPROVER_assume(q != NULL);
  g_q = q; q->channel = &ch; q->callback = user_cb; q->arg = NULL;
  g_in_all = 1; g_in_qid = 1; g_in_conn = nondet_bool(); g_in_tmo = g_in_conn; g_cb_count = 0;
  q->node_all_queries = (void*)&tok_all;
  q->node_queries_to_conn = g_in_conn ? (void*)&tok_conn : NULL;
  q->node_queries_by_timeout = g_in_tmo ? (void*)&tok_tmo : NULL;
  end_query(&ch, nondet_bool() ? &srv : NULL, q, st, NULL);
  __CPROVER_assert(g_cb_count == 1, "C01: completion callback fired exactly once");
  __CPROVER_assert(!g_in_all && !g_in_qid && !g_in_conn && !g_in_tmo, "C01: query left all four indexes");
}
