#include "/repo/src/lib/str/ares_buf.c"
/* harness */
void h_fetch_be16(void) {
  ares_buf_t *buf; unsigned short *u16;
  ares_buf_fetch_be16(buf, u16);
}
