#include "src/lib/ares_process.c"
_Bool nondet_bool(void); unsigned short nondet_u16(void); unsigned nondet_uint(void);
/* ---- ghost observation ---- */
int g_delivered, g_marked_good, g_cached, g_requeued, g_failed; const ares_dns_record_t *g_delivered_rec; ares_query_t *g_delivered_q;
ares_query_t *g_q; _Bool g_found, g_same, g_cookie_ok, g_parse_ok, g_edns_issue; unsigned short g_flags; ares_dns_rcode_t g_rcode;
static char recobj; 
ares_status_t ares_dns_parse(const unsigned char *buf, size_t buf_len, unsigned int flags, ares_dns_record_t **dnsrec){ if(!g_parse_ok){*dnsrec=NULL; return ARES_EBADRESP;} *dnsrec=(ares_dns_record_t*)&recobj; return ARES_SUCCESS; }
void *ares_htable_szvp_get_direct(const ares_htable_szvp_t *h, size_t key){ return g_found ? g_q : NULL; }
unsigned short ares_dns_record_get_id(const ares_dns_record_t *r){ return nondet_u16(); }
unsigned short ares_dns_record_get_flags(const ares_dns_record_t *r){ return g_flags; }
ares_dns_rcode_t ares_dns_record_get_rcode(const ares_dns_record_t *r){ return g_rcode; }
ares_status_t ares_cookie_validate(ares_query_t *q, const ares_dns_record_t *r, ares_conn_t *c, const ares_timeval_t *now, ares_array_t **rq){ return g_cookie_ok ? ARES_SUCCESS : ARES_EBADRESP; }
void ares_llist_node_destroy(ares_llist_node_t *n){}
void ares_dns_record_destroy(ares_dns_record_t *r){}
ares_status_t ares_qcache_insert(ares_channel_t *ch, const ares_timeval_t *now, const ares_query_t *q, ares_dns_record_t *r){ g_cached++; return nondet_bool()?ARES_SUCCESS:ARES_ENOTIMP; }

static ares_bool_t same_questions(const ares_query_t *query, const ares_dns_record_t *arec) __CPROVER_requires(1) __CPROVER_assigns() __CPROVER_ensures(__CPROVER_return_value == (g_same ? ARES_TRUE : ARES_FALSE));
static ares_bool_t issue_might_be_edns(const ares_dns_record_t *req, const ares_dns_record_t *rsp) __CPROVER_requires(1) __CPROVER_assigns() __CPROVER_ensures(__CPROVER_return_value == (g_edns_issue ? ARES_TRUE : ARES_FALSE));
static ares_status_t rewrite_without_edns(ares_query_t *query) __CPROVER_requires(1) __CPROVER_assigns() __CPROVER_ensures(1);
static void end_query(ares_channel_t *channel, ares_server_t *server, ares_query_t *query, ares_status_t status, const ares_dns_record_t *dnsrec)
 __CPROVER_requires(1) __CPROVER_assigns(g_delivered, g_delivered_rec, g_delivered_q, g_failed)
 __CPROVER_ensures(dnsrec != NULL ? (g_delivered == __CPROVER_old(g_delivered)+1 && g_delivered_rec == dnsrec && g_delivered_q == query && g_failed == __CPROVER_old(g_failed)) : (g_failed == __CPROVER_old(g_failed)+1 && g_delivered == __CPROVER_old(g_delivered) && g_delivered_rec == __CPROVER_old(g_delivered_rec) && g_delivered_q == __CPROVER_old(g_delivered_q)));
static ares_status_t ares_append_requeue(ares_array_t **requeue, ares_query_t *query, ares_server_t *server) __CPROVER_requires(1) __CPROVER_assigns(g_requeued) __CPROVER_ensures(g_requeued == __CPROVER_old(g_requeued)+1);
ares_status_t ares_requeue_query(ares_query_t *query, const ares_timeval_t *now, ares_status_t status, ares_bool_t inc, const ares_dns_record_t *dnsrec, ares_array_t **requeue) __CPROVER_requires(1) __CPROVER_assigns(g_requeued) __CPROVER_ensures(g_requeued == __CPROVER_old(g_requeued)+1);
static void server_increment_failures(ares_server_t *server, ares_bool_t used_tcp) __CPROVER_requires(1) __CPROVER_assigns() __CPROVER_ensures(1);
static void server_set_good(ares_server_t *server, ares_bool_t used_tcp) __CPROVER_requires(1) __CPROVER_assigns(g_marked_good) __CPROVER_ensures(g_marked_good == __CPROVER_old(g_marked_good)+1);

void h_process_answer(void){
  ares_channel_t ch; ares_server_t srv; ares_conn_t conn, other; ares_query_t q; ares_timeval_t now; unsigned char pkt[16]; size_t alen; ares_array_t *rq=NULL;
  conn.server=&srv; srv.channel=&ch; q.channel=&ch; g_q=&q;
  q.conn = nondet_bool() ? &conn : &other;               /* the connection the query is currently assigned to */
  g_found=nondet_bool(); g_same=nondet_bool(); g_cookie_ok=nondet_bool(); g_parse_ok=nondet_bool(); g_edns_issue=nondet_bool(); g_flags=nondet_u16(); g_rcode=(ares_dns_rcode_t)nondet_uint();
  g_delivered=g_marked_good=g_cached=g_requeued=g_failed=0; g_delivered_rec=NULL;
  __CPROVER_assume(alen<=16);
  ares_status_t rv=process_answer(&ch,pkt,alen,&conn,&now,&rq);
  _Bool used = g_delivered || g_marked_good || g_cached;
  __CPROVER_assert(!used || (alen>0 && g_parse_ok), "C05/C20: only a well-formed, non-empty message can answer");
  __CPROVER_assert(!used || g_found, "C05: response id selects a live query");
  __CPROVER_assert(!used || g_same, "C05: question must match");
  __CPROVER_assert(!used || g_cookie_ok, "C05: cookie checks must pass");
  __CPROVER_assert(!used || !((g_flags & ARES_FLAG_TC) && !(conn.flags & ARES_CONN_FLAG_TCP) && !(ch.flags & ARES_FLAG_IGNTC)), "C20: truncated UDP answer is not delivered");
  __CPROVER_assert(!used || q.conn == &conn, "C05: response arrived on the connection the query is assigned to");
  __CPROVER_assert(g_delivered <= 1 && (!g_delivered || g_delivered_q == &q), "C01: at most one delivery");
  __CPROVER_assert(!g_cached || g_delivered, "C08: only delivered answers are cached");
}
