#include <stdlib.h>
int mk(char **out, unsigned len)
__CPROVER_requires(__CPROVER_is_fresh(out, sizeof(*out)) && len > 0 && len < 100)
__CPROVER_assigns(*out)
__CPROVER_ensures(__CPROVER_return_value == 0 || __CPROVER_return_value == 1)
__CPROVER_ensures(__CPROVER_return_value == 0 ==> __CPROVER_is_fresh(*out, len))
;
void consume(char *p)
__CPROVER_requires(__CPROVER_is_fresh(p, 1))
__CPROVER_assigns()
__CPROVER_frees(p)

;
int f(unsigned n)
__CPROVER_requires(n < 1000)
__CPROVER_assigns()
__CPROVER_ensures(__CPROVER_return_value == 0 || __CPROVER_return_value == 1)
{
  unsigned i;
  for (i = 0; i < n; i++)
  __CPROVER_assigns(i)
  __CPROVER_loop_invariant(i <= n)
  __CPROVER_decreases(n - i)
  {
    char *p;
    if (mk(&p, 4) != 0) return 1;
    p[0] = 1;
    consume(p);
  }
  return 0;
}
void h(void){ unsigned n; f(n); }
