#include "/repo/src/lib/str/ares_buf.c"
#define MAXLEN 70000
#define CBUF_WF(b) ( __CPROVER_is_fresh(b, sizeof(*b)) && (b)->alloc_buf == NULL && (b)->data_len <= MAXLEN && \
   __CPROVER_is_fresh((b)->data, (b)->data_len) && (b)->offset <= (b)->data_len && \
   ((b)->tag_offset == SIZE_MAX || (b)->tag_offset <= (b)->offset))

ares_status_t ares_buf_consume(ares_buf_t *buf, size_t len)
__CPROVER_requires(CBUF_WF(buf))
__CPROVER_assigns(buf->offset)
__CPROVER_ensures(__CPROVER_return_value == ARES_SUCCESS || __CPROVER_return_value == ARES_EBADRESP)
__CPROVER_ensures((__CPROVER_return_value == ARES_SUCCESS) == (len <= __CPROVER_old(buf->data_len) - __CPROVER_old(buf->offset)))
__CPROVER_ensures(buf->offset == __CPROVER_old(buf->offset) + (__CPROVER_return_value == ARES_SUCCESS ? len : 0))
;
ares_status_t ares_buf_fetch_be32(ares_buf_t *buf, unsigned int *u32)
__CPROVER_requires(CBUF_WF(buf))
__CPROVER_requires(__CPROVER_is_fresh(u32, sizeof(*u32)))
__CPROVER_assigns(buf->offset, *u32)
__CPROVER_ensures(__CPROVER_return_value == ARES_SUCCESS || __CPROVER_return_value == ARES_EBADRESP)
__CPROVER_ensures(__CPROVER_return_value == ARES_SUCCESS ==> (buf->offset == __CPROVER_old(buf->offset) + 4 && buf->offset <= buf->data_len
    && *u32 == (((unsigned)buf->data[buf->offset-4] << 24) | ((unsigned)buf->data[buf->offset-3] << 16) | ((unsigned)buf->data[buf->offset-2] << 8) | buf->data[buf->offset-1])))
__CPROVER_ensures(__CPROVER_return_value != ARES_SUCCESS ==> (buf->offset == __CPROVER_old(buf->offset)))
;
void h(void) { ares_buf_t *buf; unsigned int *u; ares_buf_fetch_be32(buf, u); }
