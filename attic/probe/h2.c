#include "/repo/src/lib/str/ares_buf.c"

#define BUF_WF(b) ( __CPROVER_is_fresh(b, sizeof(*b)) && (b)->alloc_buf == NULL && (b)->data_len <= 70000 && \
   __CPROVER_is_fresh((b)->data, (b)->data_len) && (b)->offset <= (b)->data_len && \
   ((b)->tag_offset == SIZE_MAX || (b)->tag_offset <= (b)->offset))

ares_status_t ares_buf_fetch_be16(ares_buf_t *buf, unsigned short *u16)
__CPROVER_requires(BUF_WF(buf))
__CPROVER_requires(__CPROVER_is_fresh(u16, sizeof(*u16)))
__CPROVER_assigns(buf->offset, *u16)
__CPROVER_ensures(__CPROVER_return_value == ARES_SUCCESS || __CPROVER_return_value == ARES_EBADRESP)
__CPROVER_ensures(__CPROVER_return_value == ARES_SUCCESS ==> (buf->offset == __CPROVER_old(buf->offset) + 2 && buf->offset <= buf->data_len
    && *u16 == (unsigned short)((buf->data[buf->offset-2] << 8) | buf->data[buf->offset-1])))
__CPROVER_ensures(__CPROVER_return_value != ARES_SUCCESS ==> (buf->offset == __CPROVER_old(buf->offset) && __CPROVER_old(buf->data_len) - __CPROVER_old(buf->offset) < 2))
;

void h_fetch_be16(void) {
  ares_buf_t *buf; unsigned short *u16;
  ares_buf_fetch_be16(buf, u16);
}
