#include "src/lib/ares_send.c"
int g_depth; _Bool nondet_bool(void);
void ares_channel_lock(const ares_channel_t *c){ g_depth++; }
void ares_channel_unlock(const ares_channel_t *c){ __CPROVER_assert(g_depth>0,"C11: unlock only while held"); g_depth--; }
/* every worker that touches channel state must be entered with the lock held */
void *ares_htable_szvp_get_direct(const ares_htable_szvp_t *h, size_t k){ __CPROVER_assert(g_depth>0,"C11: qid index read under lock"); return NULL; }
size_t ares_llist_len(const ares_llist_t *l){ __CPROVER_assert(g_depth>0,"C11: all_queries read under lock"); size_t n; return n; }
size_t ares_slist_len(const ares_slist_t *l){ __CPROVER_assert(g_depth>0,"C11: servers read under lock"); size_t n; return n; }
void h_send_dnsrec(void){ ares_channel_t ch; ares_dns_record_t *rec; ares_callback_dnsrec cb; unsigned short qid; g_depth=0;
  ares_send_dnsrec(nondet_bool()?&ch:NULL, rec, cb, NULL, nondet_bool()?&qid:NULL);
  __CPROVER_assert(g_depth==0,"C11: ares_send_dnsrec returns with the lock released"); }
void h_active(void){ ares_channel_t ch; g_depth=0; ares_queue_active_queries(nondet_bool()?&ch:NULL); __CPROVER_assert(g_depth==0,"C11: ares_queue_active_queries balanced"); }
