#include "src/lib/str/ares_buf.c"
#include "src/lib/str/ares_str.c"
#include "src/lib/dsa/ares_array.c"
#include "src/lib/dsa/ares_llist.c"
#include "src/lib/util/ares_math.c"
#include "src/lib/record/ares_dns_mapping.c"
#include "src/lib/record/ares_dns_multistring.c"
#include "src/lib/record/ares_dns_name.c"
#include "src/lib/record/ares_dns_record.c"
#include "src/lib/record/ares_dns_parse.c"
#include "src/lib/record/ares_dns_write.c"
void *ares_malloc(size_t n){ if(n==0) return NULL; return malloc(n);}
void *ares_realloc(void *p, size_t n){ return realloc(p,n);}
void ares_free(void *p){ free(p);}
void *ares_malloc_zero(size_t n){ void *p=ares_malloc(n); if(p) memset(p,0,n); return p;}
void *ares_realloc_zero(void *ptr, size_t o, size_t n){ void *p=ares_realloc(ptr,n); if(p && n>o) memset((char*)p+o,0,n-o); return p;}
#include "rt.c"
