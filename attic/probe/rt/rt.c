#include "src/lib/ares_private.h"
#include <string.h>
_Bool nondet_bool(void);
unsigned short nondet_u16(void); unsigned int nondet_u32(void); unsigned char nondet_u8(void);
void h(void){
  ares_dns_record_t *rec=NULL, *rec2=NULL;
  unsigned short id=nondet_u16(); unsigned short flags = nondet_u16() & (ARES_FLAG_QR|ARES_FLAG_AA|ARES_FLAG_TC|ARES_FLAG_RD|ARES_FLAG_RA|ARES_FLAG_AD|ARES_FLAG_CD);
  if (ares_dns_record_create(&rec,id,flags,ARES_OPCODE_QUERY,ARES_RCODE_NOERROR)!=ARES_SUCCESS) return;
  const char *name="ab";
  if (ares_dns_record_query_add(rec,name,ARES_REC_TYPE_A,ARES_CLASS_IN)!=ARES_SUCCESS){ ares_dns_record_destroy(rec); return; }
  ares_dns_rr_t *rr=NULL; unsigned int ttl=nondet_u32();
  if (ares_dns_record_rr_add(&rr,rec,ARES_SECTION_ANSWER,name,ARES_REC_TYPE_A,ARES_CLASS_IN,ttl)!=ARES_SUCCESS){ ares_dns_record_destroy(rec); return; }
  struct in_addr a; a.s_addr=nondet_u32();
  ares_dns_rr_set_addr(rr,ARES_RR_A_ADDR,&a);
  unsigned char *out=NULL; size_t olen=0;
  if (ares_dns_write(rec,&out,&olen)!=ARES_SUCCESS){ ares_dns_record_destroy(rec); return; }
  __CPROVER_assert(olen<=65535,"len");
  ares_status_t st=ares_dns_parse(out,olen,0,&rec2);
  __CPROVER_assert(st==ARES_SUCCESS || st==ARES_ENOMEM,"reparse succeeds");
  if(st==ARES_SUCCESS){
    __CPROVER_assert(ares_dns_record_get_id(rec2)==id,"id");
    __CPROVER_assert(ares_dns_record_get_flags(rec2)==flags,"flags");
    __CPROVER_assert(ares_dns_record_rr_cnt(rec2,ARES_SECTION_ANSWER)==1,"ancount");
    const ares_dns_rr_t *r2=ares_dns_record_rr_get_const(rec2,ARES_SECTION_ANSWER,0);
    __CPROVER_assert(ares_dns_rr_get_ttl(r2)==ttl,"ttl");
    __CPROVER_assert(ares_dns_rr_get_addr(r2,ARES_RR_A_ADDR)->s_addr==a.s_addr,"addr");
    __CPROVER_assert(strcmp(ares_dns_rr_get_name(r2),name)==0,"name");
    ares_dns_record_destroy(rec2);
  }
  ares_free(out); ares_dns_record_destroy(rec);
}
