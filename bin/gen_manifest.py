#!/usr/bin/env python3
"""regenerate MANIFEST.json from the registry (which properties have obligations) and the per-property texts below"""
import json, os, sys, glob
V = os.path.dirname(os.path.dirname(os.path.abspath(__file__)))
sys.path.insert(0, os.path.join(V, 'bin'))
TEXT = json.load(open(os.path.join(V, 'bin', 'manifest_texts.json')))
have = {}
for f in glob.glob(os.path.join(V, 'proofs', '*', 'obligations.json')):
    for o in json.load(open(f))['obligations']:
        for p in o['props']:
            have.setdefault(p, []).append(o)
checks = []; na = []
for l in open(os.path.join(V, 'properties.jsonl')):
    pid = json.loads(l)['id']
    t = TEXT.get(pid, {})
    if pid in have and t.get('claim', True) and t.get('text'):
        P = [o for o in have[pid] if o.get('tier', 'P') == 'P']
        checks.append({
            'property_id': pid,
            'quick_cmd': f'python3 bin/vcheck {pid} --tier quick',
            'thorough_cmd': f'python3 bin/vcheck {pid} --tier thorough',
            'evidence_file': f'/verif/evidence/{pid}.json',
            'replay_cmd_template': f'python3 bin/vcheck {pid} --replay {{path}}',
            'engine': 'cbmc-dfcc',
            'level_claimed': {'category': t.get('category', 'proof' if P else 'model_checking'), 'text': t['text'], 'design_ref': t.get('design_ref', 'DESIGN.md §5 ' + pid)},
            'level_note': t['note'],
            'technique': t.get('technique', 'CBMC code contracts (goto-instrument --dfcc) on the real functions, loop contracts, per-function modular proof'),
        })
    else:
        na.append({'property_id': pid, 'reason': t.get('na_reason', 'no contract-level obligation for this property has been discharged yet; not claimed')})
m = {
 'version': 1,
 'setup_cmd': 'sh bin/setup.sh',
 'hooks': {'guard': 'CARES_VERIF', 'enable': 'no source hooks: contracts are attached by re-declaration in wrapper translation units under /verif/proofs that #include the real /repo/src/lib/*.c files (goto-cc -DCARES_VERIF); loop contracts come from generated --loop-contracts-file side files', 'baseline_off_cmd': 'cmake -G Ninja -B /repo/_build -S /repo -DCARES_BUILD_TESTS=ON -DCARES_BUILD_CONTAINER_TESTS=ON -DCMAKE_BUILD_TYPE=RelWithDebInfo && cmake --build /repo/_build && python3 /verif/bin/run_suite.py /repo/_build', 'source_commits': [], 'add_only': True},
 'engines': [{'name': 'cbmc-dfcc', 'path': 'bin/vcheck', 'serves_properties': [c['property_id'] for c in checks], 'kind_free_text': 'goto-cc + goto-instrument --dfcc (function contracts, loop contracts) + cbmc 6.11 (cadical / cvc5 back ends); native replay with clang ASan+UBSan'}],
 'checks': checks,
 'not_applicable': na,
 'notes': 'Contract-based deductive verification of the real c-ares sources with CBMC code contracts; see DESIGN.md. Exit 2 = machinery error (timeout, wrapper no longer compiles), never reported as a violation.',
}
json.dump(m, open(os.path.join(V, 'MANIFEST.json'), 'w'), indent=1)
try:
    import jsonschema
except ImportError:
    print("MANIFEST.json written (jsonschema not available for validation)"); sys.exit(0)
jsonschema.validate(m, json.load(open('/root/.vp/MANIFEST.schema.json')))
print('MANIFEST.json:', len(checks), 'claimed,', len(na), 'not applicable')
