#!/bin/bash
# seedtest.sh <patch.diff> <Cxx> [tier]: apply a seeded change to /repo, run the check, undo the change.
# The evidence file is saved and restored: committed evidence must come from the unchanged tree only.
EV=/verif/evidence/$2.json; [ -f $EV ] && cp $EV /tmp/.ev_$2.bak
cd /repo && git apply "$1" || exit 2
python3 /verif/bin/vcheck "$2" --tier "${3:-quick}" 2>&1 | grep -E "VIOLATION|MACHINERY|KNOWN|tier=|FAILED" ; RC=${PIPESTATUS[0]}
git -C /repo checkout -- .
[ -f /tmp/.ev_$2.bak ] && mv /tmp/.ev_$2.bak $EV
echo "exit=$RC"
