#!/bin/bash
# seedtest.sh <patch.diff> <Cxx> [tier]: apply a seeded change to /repo, run the check, undo the change
cd /repo && git apply "$1" || exit 2
python3 /verif/bin/vcheck "$2" --tier "${3:-quick}" 2>&1 | grep -E "VIOLATION|MACHINERY|KNOWN|tier=|FAILED" ; RC=${PIPESTATUS[0]}
git -C /repo checkout -- .
echo "exit=$RC"
