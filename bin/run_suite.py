#!/usr/bin/env python3
"""Run the pinned c-ares test suite of a build dir and compare with /root/.vp/BASELINE.json stable_pass.
usage: run_suite.py <build_dir>      exit 0 iff every stable_pass test passed."""
import json, subprocess, sys, os, tempfile, xml.etree.ElementTree as ET
b = os.path.abspath(sys.argv[1])
base = json.load(open('/root/.vp/BASELINE.json'))['stable_pass']
want = set(base)
xml = tempfile.mktemp(suffix='.xml')
env = dict(os.environ)
p = subprocess.run([os.path.join(b, 'bin', 'arestest'), '--gtest_output=xml:' + xml],
                   stdout=subprocess.PIPE, stderr=subprocess.STDOUT, cwd=os.path.join(b, 'test') if os.path.isdir(os.path.join(b,'test')) else b, env=env)
ok = set(); bad = set()
try:
    for tc in ET.parse(xml).getroot().iter('testcase'):
        name = tc.get('classname') + '::' + tc.get('name')
        failed = any(c.tag in ('failure', 'error') for c in tc)
        skipped = tc.get('status') == 'notrun' or any(c.tag == 'skipped' for c in tc)
        (bad if failed else ok).add(name) if not skipped else None
finally:
    if os.path.exists(xml): os.unlink(xml)
for t in ('aresfuzz', 'aresfuzzname'):
    r = subprocess.run(['ctest', '--test-dir', b, '-R', '^' + t + '$', '--timeout', '900'], stdout=subprocess.PIPE, stderr=subprocess.STDOUT)
    if r.returncode == 0 and b'100% tests passed' in r.stdout: ok.add(t + '::' + t)
missing = sorted(want - ok)
print(f"arestest rc={p.returncode} passed={len(ok)} failed={len(bad)} baseline={len(want)} baseline_not_passed={len(missing)}")
for m in missing[:20]: print("  NOT PASSED:", m)
if not ok: print(p.stdout.decode(errors='replace')[-3000:])
sys.exit(1 if missing else 0)
