#!/usr/bin/env python3
"""Run every confirmed seeded change against the check of its property (quick tier) and record which obligations catch it.
Applies the patch to /repo, runs the check, undoes the patch; evidence files are saved and restored.
Writes seeded/<id>/meta.json (detected_by) and seeded/RESULTS.md."""
import json, os, subprocess, glob, re, shutil, sys
V = os.path.dirname(os.path.dirname(os.path.abspath(__file__)))
rows = []
only = sys.argv[1:]
for d in sorted(glob.glob(os.path.join(V, 'seeded', 'C*-*'))):
    sid = os.path.basename(d)
    if only and sid not in only: continue
    meta = json.load(open(os.path.join(d, 'meta.json')))
    pid = meta['property']
    patch = os.path.join(d, 'patch.rebased.diff') if os.path.exists(os.path.join(d, 'patch.rebased.diff')) else os.path.join(d, 'patch.diff')
    ev = os.path.join(V, 'evidence', pid + '.json'); bak = '/tmp/.ev_%s.bak' % pid
    if os.path.exists(ev): shutil.copy(ev, bak)
    r = subprocess.run(['git', '-C', '/repo', 'apply', patch], capture_output=True, text=True)
    if r.returncode != 0:
        rows.append((sid, pid, 'PATCH DOES NOT APPLY', '')); continue
    try:
        p = subprocess.run(['python3', os.path.join(V, 'bin', 'vcheck'), pid, '--tier', 'quick'], capture_output=True, text=True)
    finally:
        subprocess.run(['git', '-C', '/repo', 'checkout', '--', '.'])
        if os.path.exists(bak): shutil.move(bak, ev)
    out = p.stdout
    obs = re.findall(r'obligation (\S+) FAILED: (?:FAILURE|UNKNOWN)? ?(\S+) \[([^\]]*)\]', out)
    viol = re.findall(r'^VIOLATION property=\S+ replay=\S+(.*)$', out, re.M)
    replayed = sum(1 for v in viol if 'no-failing-input-found' not in v)
    meta['detected_by'] = [{'obligation': o, 'cbmc_property': i, 'description': t} for o, i, t in obs]
    meta['check_exit'] = p.returncode
    meta['violations_reported'] = len(viol); meta['violations_replayed_natively'] = replayed
    meta['patch_used'] = os.path.basename(patch)
    json.dump(meta, open(os.path.join(d, 'meta.json'), 'w'), indent=1)
    rows.append((sid, pid, 'exit=%d' % p.returncode, '; '.join('%s [%s]' % (o, t[:90]) for o, i, t in obs[:3]) + (' (replayed natively: %d/%d)' % (replayed, len(viol)) if viol else '')))
    print(rows[-1], flush=True)
with open(os.path.join(V, 'seeded', 'RESULTS.md'), 'a' if only else 'w') as f:
    if not only: f.write('# Seeded changes vs checks (quick tier)\n\n| seed | property | check | caught by |\n|---|---|---|---|\n')
    for r in rows: f.write('| %s | %s | %s | %s |\n' % r)
