#!/bin/sh
# setup_cmd: nothing is downloaded or built ahead of time; every check rebuilds its goto programs from /repo's
# working tree.  This script only verifies that the tools are present and runs one proof and one must-fail twin.
set -e
cd "$(dirname "$0")/.."
for t in goto-cc goto-instrument cbmc python3 clang; do command -v $t >/dev/null || { echo "missing tool $t"; exit 1; }; done
mkdir -p out/work evidence
python3 bin/vcheck --ob buf.fetch_be16 >/dev/null || { echo "sanity proof failed"; exit 1; }
python3 bin/vcheck --twins buf.be16_short_check | grep -q TWIN-OK || { echo "sanity twin did not fail as expected"; exit 1; }
echo "setup ok"
