#!/bin/bash
# confirm_seed.sh <Cxx> <k>: confirm a sub-agent's seeded change in its scratch worktree /tmp/seed/<Cxx>:
#   patch applies, library builds, pinned suite passes, demo fails with the change and passes without it.
# Stores patch, demo and meta.json under /verif/seeded/<Cxx>-<k>/ when everything is confirmed.
P=$1; K=$2; W=/tmp/seed/$P; O=$W/out/$K; D=/verif/seeded/$P-$K
cd $W || exit 2
git checkout -q -- . ; git apply --check $O/patch.diff || { echo "$P-$K: patch does not apply"; exit 1; }
git apply $O/patch.diff
cmake --build _build -j6 >/tmp/seed/$P-$K.build.log 2>&1 || { echo "$P-$K: build failed"; git checkout -q -- .; exit 1; }
python3 /tmp/tools/run_suite.py _build > /tmp/seed/$P-$K.suite.log 2>&1; SUITE=$?
( cd $O && timeout 600 bash ./run_demo.sh $W/_build ) > /tmp/seed/$P-$K.demo_with.log 2>&1; WITH=$?
git checkout -q -- .
cmake --build _build -j6 >>/tmp/seed/$P-$K.build.log 2>&1
( cd $O && timeout 600 bash ./run_demo.sh $W/_build ) > /tmp/seed/$P-$K.demo_without.log 2>&1; WITHOUT=$?
echo "$P-$K: suite_rc=$SUITE demo_with_rc=$WITH demo_without_rc=$WITHOUT"
if [ $SUITE -eq 0 ] && [ $WITH -ne 0 ] && [ $WITHOUT -eq 0 ]; then
  mkdir -p $D; cp $O/patch.diff $D/; cp $O/README.md $D/ 2>/dev/null
  for f in $O/*; do case "$f" in *.log|*/patch.diff|*/README.md) ;; *) [ -f "$f" ] && [ $(stat -c %s "$f") -lt 200000 ] && cp "$f" $D/ ;; esac; done
  python3 - "$P" "$K" "$SUITE" "$WITH" "$WITHOUT" <<'PY'
import json,sys,subprocess
P,K,S,W,WO=sys.argv[1:6]
d=f'/verif/seeded/{P}-{K}'
readme=open(d+'/README.md').read() if __import__('os').path.exists(d+'/README.md') else ''
json.dump({'property':P,'seed':f'{P}-{K}','source':'independent sub-agent given only the property text and a scratch worktree',
 'needs_to_manifest':'see README.md (written by the sub-agent)','confirmed_by':'bin/confirm_seed.sh in scratch worktree /tmp/seed/'+P,
 'confirmed':{'patch_applies':True,'builds':True,'pinned_suite_passes':S=='0','demo_with_change_rc':int(W),'demo_without_change_rc':int(WO)},
 'suite_line':open(f'/tmp/seed/{P}-{K}.suite.log').read().strip().splitlines()[0] if True else '',
 'files_changed':[l[6:] for l in open(d+'/patch.diff') if l.startswith('+++ b/')],
 'detected_by':None},open(d+'/meta.json','w'),indent=1)
PY
  echo "$P-$K: CONFIRMED -> $D"
else
  echo "$P-$K: NOT confirmed"
fi
