/* C19: the real src/lib/dsa/ares_llist.c.
 * P tier: window contracts on the two primitives every operation is built from (ares_llist_attach_at,
 *         ares_llist_node_detach): list of ANY length, only the node, its two neighbours and the header change.
 * B tier: full sequence semantics on state-constructed lists of <= 3 nodes (+ a second list of <= 2 nodes for moves). */
#define VERIF_EXACT_ZERO
#include "alloc.h"
#include "src/lib/dsa/ares_llist.c"

#ifndef VERIF_BOUNDED
/* ---------------- P tier: window contracts ---------------------------------------------------------- */
#define NODE_FRESH(n) __CPROVER_is_fresh(n, sizeof(ares_llist_node_t))
static void ares_llist_attach_at(ares_llist_t *list, ares_llist_insert_type_t type, ares_llist_node_t *at, ares_llist_node_t *node)
__CPROVER_requires(type == ARES__LLIST_INSERT_BEFORE)
__CPROVER_requires(__CPROVER_is_fresh(list, sizeof(*list)) && NODE_FRESH(node) && NODE_FRESH(at))
__CPROVER_requires(at->parent == list && list->head != NULL && list->tail != NULL && list->cnt >= 1 && list->cnt < (size_t)-1)
__CPROVER_requires(at->prev == NULL || (NODE_FRESH(at->prev) && at->prev->next == at && at->prev->parent == list))
__CPROVER_requires((at->prev == NULL) ? __CPROVER_pointer_equals(list->head, at) : (__CPROVER_pointer_equals(list->head, at->prev) || NODE_FRESH(list->head)))
__CPROVER_assigns(list->head, list->tail, list->cnt, node->next, node->prev, node->parent, at->prev; at->prev != NULL: at->prev->next)
/* window predicate restored around the new node (C19: "preserves order"): prev <-> node <-> at */
__CPROVER_ensures(node->next == at && at->prev == node && node->parent == list)
__CPROVER_ensures(node->prev == __CPROVER_old(at->prev))
__CPROVER_ensures(node->prev != NULL ==> node->prev->next == node)
__CPROVER_ensures((node->prev == NULL) == (list->head == node))
__CPROVER_ensures(list->tail == __CPROVER_old(list->tail))
__CPROVER_ensures(list->cnt == __CPROVER_old(list->cnt) + 1)
;
void h_attach_before(void) { ares_llist_t *l; ares_llist_insert_type_t t; ares_llist_node_t *at, *n; ares_llist_attach_at(l, t, at, n); }

static void ares_llist_node_detach(ares_llist_node_t *node)
__CPROVER_requires(NODE_FRESH(node) && __CPROVER_is_fresh(node->parent, sizeof(ares_llist_t)) && node->parent->cnt >= 1)
__CPROVER_requires(node->prev == NULL || (NODE_FRESH(node->prev) && node->prev->next == node))
__CPROVER_requires(node->next == NULL || (NODE_FRESH(node->next) && node->next->prev == node))
__CPROVER_requires(node->prev == NULL ? __CPROVER_pointer_equals(node->parent->head, node) : (__CPROVER_pointer_equals(node->parent->head, node->prev) || NODE_FRESH(node->parent->head)))
__CPROVER_requires(node->next == NULL ? __CPROVER_pointer_equals(node->parent->tail, node) : (__CPROVER_pointer_equals(node->parent->tail, node->next) || NODE_FRESH(node->parent->tail)))
__CPROVER_assigns(node->parent, node->parent->head, node->parent->tail, node->parent->cnt; node->prev != NULL: node->prev->next; node->next != NULL: node->next->prev)
/* neighbours are joined, the header follows, the node is orphaned */
__CPROVER_ensures(__CPROVER_old(node->prev) != NULL ==> __CPROVER_old(node->prev)->next == __CPROVER_old(node->next))
__CPROVER_ensures(__CPROVER_old(node->next) != NULL ==> __CPROVER_old(node->next)->prev == __CPROVER_old(node->prev))
__CPROVER_ensures(__CPROVER_old(node->prev) == NULL ==> __CPROVER_old(node->parent)->head == __CPROVER_old(node->next))
__CPROVER_ensures(__CPROVER_old(node->next) == NULL ==> __CPROVER_old(node->parent)->tail == __CPROVER_old(node->prev))
__CPROVER_ensures(__CPROVER_old(node->prev) != NULL ==> __CPROVER_old(node->parent)->head == __CPROVER_old(node->parent->head))
__CPROVER_ensures(__CPROVER_old(node->next) != NULL ==> __CPROVER_old(node->parent)->tail == __CPROVER_old(node->parent->tail))
__CPROVER_ensures(node->parent == NULL && __CPROVER_old(node->parent)->cnt == __CPROVER_old(node->parent->cnt) - 1)
;
void h_detach(void) { ares_llist_node_t *n; ares_llist_node_detach(n); }

#else
/* ---------------- B tier: sequence semantics on constructed lists ---------------------------------- */
#define NMAX 3
static char tok[16];                       /* distinct payload tokens */
static int  g_destroyed[16];
static void count_destroy(void *p) { g_destroyed[(char *)p - tok]++; }
static ares_llist_destructor_t g_keep = count_destroy;
static ares_llist_node_t *nodes[2][NMAX + 2];
/* build list #w with n nodes carrying tok[base..base+n) */
static void mk(ares_llist_t *l, int w, size_t n, int base)
{
  l->head = l->tail = NULL; l->cnt = n; l->destruct = count_destroy;
  for (size_t i = 0; i < NMAX; i++) if (i < n) {
    ares_llist_node_t *x = malloc(sizeof(*x)); __CPROVER_assume(x != NULL);
    x->data = &tok[base + i]; x->parent = l; x->next = NULL; x->prev = l->tail;
    if (l->tail) l->tail->next = x; else l->head = x;
    l->tail = x; nodes[w][i] = x;
  }
}
/* the list is exactly exp[0..n) in both directions, with consistent header */
static void check(ares_llist_t *l, void **exp, size_t n)
{
  ares_llist_node_t *x = l->head, *p = NULL;
  __CPROVER_assert(l->cnt == n, "C19: list length");
  for (size_t i = 0; i < NMAX + 1; i++) if (i < n) {
    __CPROVER_assert(x != NULL, "C19: forward traversal loses nothing");
    __CPROVER_assert(x->data == exp[i], "C19: forward traversal yields the expected order");
    __CPROVER_assert(x->prev == p && x->parent == l, "C19: back links and parent are consistent");
    p = x; x = x->next;
  }
  __CPROVER_assert(x == NULL, "C19: forward traversal duplicates nothing");
  __CPROVER_assert(l->tail == p, "C19: tail is the last node");
}
void hb_insert(void)
{
  ares_llist_t l; size_t n = nondet_size(), k = nondet_size(); unsigned op = (unsigned)nondet_size() % 4; __CPROVER_assume(n <= NMAX);
  mk(&l, 0, n, 0);
  void *exp[NMAX + 2]; void *v = &tok[10]; ares_llist_node_t *r; size_t pos;
  if (op == 0) { r = ares_llist_insert_first(&l, v); pos = 0; }
  else if (op == 1) { r = ares_llist_insert_last(&l, v); pos = n; }
  else { __CPROVER_assume(k < n); r = (op == 2) ? ares_llist_insert_before(nodes[0][k], v) : ares_llist_insert_after(nodes[0][k], v); pos = (op == 2) ? k : k + 1; }
  if (r == NULL) { for (size_t i = 0; i < NMAX; i++) exp[i] = &tok[i]; check(&l, exp, n); return; } /* ENOMEM: unchanged */
  for (size_t i = 0; i < NMAX + 1; i++) exp[i] = i < pos ? (void *)&tok[i] : (i == pos ? v : (void *)&tok[i - 1]);
  __CPROVER_assert(r->data == v, "C19: new node carries the value");
  check(&l, exp, n + 1);
}
void hb_claim(void)
{
  ares_llist_t l; size_t n = nondet_size(), k = nondet_size(); __CPROVER_assume(n <= NMAX && n >= 1 && k < n);
  mk(&l, 0, n, 0); _Bool destroy = nondet_bool();
  void *exp[NMAX + 1];
  if (destroy) ares_llist_node_destroy(nodes[0][k]);
  else { void *v = ares_llist_node_claim(nodes[0][k]); __CPROVER_assert(v == &tok[k], "C19: claim returns the node's value"); }
  for (size_t i = 0; i < NMAX; i++) exp[i] = i < k ? &tok[i] : &tok[i + 1];
  check(&l, exp, n - 1);
  for (size_t i = 0; i < NMAX; i++) __CPROVER_assert(g_destroyed[i] == ((destroy && i == k) ? 1 : 0), "C19: destructor runs exactly once, only for a destroyed node");
}
void hb_move(void)
{
  ares_llist_t a, b; size_t n = nondet_size(), m = nondet_size(), k = nondet_size(); _Bool first = nondet_bool();
  __CPROVER_assume(n >= 1 && n <= NMAX && m <= 2 && k < n);
  mk(&a, 0, n, 0); mk(&b, 1, m, 4);
  if (first) ares_llist_node_mvparent_first(nodes[0][k], &b); else ares_llist_node_mvparent_last(nodes[0][k], &b);
  void *ea[NMAX + 1], *eb[NMAX + 1];
  for (size_t i = 0; i < NMAX; i++) ea[i] = i < k ? &tok[i] : &tok[i + 1];
  for (size_t i = 0; i < NMAX; i++) eb[i] = first ? (i == 0 ? (void *)&tok[k] : (void *)&tok[4 + i - 1]) : (i < m ? (void *)&tok[4 + i] : (void *)&tok[k]);
  check(&a, ea, n - 1); check(&b, eb, m + 1);
}
void hb_idx_and_destroy(void)
{
  ares_llist_t *l = ares_malloc_zero(sizeof(*l)); if (l == NULL) return;
  size_t n = nondet_size(), k = nondet_size(); __CPROVER_assume(n <= NMAX);
  mk(l, 0, n, 0);
  ares_llist_node_t *x = ares_llist_node_idx(l, k);
  __CPROVER_assert(k < n ? (x == nodes[0][k]) : (x == NULL), "C19: node_idx returns the k-th node or NULL");
  ares_llist_destroy(l);
  for (size_t i = 0; i < NMAX; i++) __CPROVER_assert(g_destroyed[i] == (i < n ? 1 : 0), "C19: destroy releases every value exactly once");
}
#endif
