/* C08: "every TTL visible through any API is reduced by the time spent cached": the TTL getter of the real
 * src/lib/record/ares_dns_record.c on a record that was delivered from the cache (ttl_decrement set by ares_qcache_fetch). */
#include "nd.h"
#include <stdlib.h>
#include <string.h>
#include "src/lib/record/ares_dns_record.c"
void h_rr_get_ttl(void)
{
  static ares_dns_record_t rec; static ares_dns_rr_t rr; rr.parent = &rec; rr.ttl = nondet_uint(); rec.ttl_decrement = nondet_uint();
  unsigned int t = ares_dns_rr_get_ttl(&rr);
  __CPROVER_assert(rec.ttl_decrement != 0 || t == rr.ttl, "C04: the TTL of a freshly parsed record is reported as stored");
  __CPROVER_assert(t == (rr.ttl > rec.ttl_decrement ? rr.ttl - rec.ttl_decrement : 0), "C08: the TTL getter reports the TTL reduced by the time spent cached");
}
