/* C19/C14: the real src/lib/dsa/ares_htable.c on the real ares_llist.c: growth keeps every key (and is failure-atomic),
 * insert/get/remove behave as a map.  Bounded, state-constructed: a 2-bucket table with <= 3 keys (growth to 4 buckets),
 * every allocation may fail. */
#include "alloc.h"
#include "src/lib/dsa/ares_llist.c"
#include "src/lib/dsa/ares_htable.c"
#define KMAX 3
typedef struct { unsigned key; int val; } ent_t;
static ent_t g_e[KMAX + 1]; static size_t g_n; static int g_freed[KMAX + 1];
static unsigned int h_hash(const void *key, unsigned int seed) { return *(const unsigned *)key; }
static const void *h_key(const void *bucket) { return &((const ent_t *)bucket)->key; }
static void h_free(void *bucket) { g_freed[(ent_t *)bucket - g_e]++; }
static ares_bool_t h_eq(const void *a, const void *b) { return *(const unsigned *)a == *(const unsigned *)b ? ARES_TRUE : ARES_FALSE; }
static ares_htable_t g_t; static ares_llist_t **g_old_buckets;
/* build an arbitrary well-formed 2-bucket table holding g_n distinct keys */
static void mk_table(void)
{
  g_n = nondet_size() % (KMAX + 1);
  g_t.hash = h_hash; g_t.bucket_key = h_key; g_t.bucket_free = h_free; g_t.key_eq = h_eq; g_t.seed = 0; g_t.size = 2; g_t.num_keys = 0; g_t.num_collisions = 0;
  g_t.buckets = malloc(sizeof(*g_t.buckets) * 2); __CPROVER_assume(g_t.buckets != NULL); g_t.buckets[0] = g_t.buckets[1] = NULL; g_old_buckets = g_t.buckets;
  for (size_t i = 0; i < KMAX; i++) if (i < g_n) {
    g_e[i].key = (unsigned)(nondet_uchar() & 7); g_e[i].val = (int)i; for (size_t j = 0; j < i; j++) __CPROVER_assume(g_e[j].key != g_e[i].key);
    unsigned idx = g_e[i].key & 1;
    if (g_t.buckets[idx] == NULL) { ares_llist_t *l = malloc(sizeof(*l)); __CPROVER_assume(l != NULL); l->head = l->tail = NULL; l->cnt = 0; l->destruct = h_free; g_t.buckets[idx] = l; }
    ares_llist_node_t *nd = malloc(sizeof(*nd)); __CPROVER_assume(nd != NULL); nd->data = &g_e[i]; nd->parent = g_t.buckets[idx]; nd->prev = NULL; nd->next = g_t.buckets[idx]->head;
    if (nd->next) nd->next->prev = nd; else g_t.buckets[idx]->tail = nd; g_t.buckets[idx]->head = nd; g_t.buckets[idx]->cnt++;
    if (g_t.buckets[idx]->cnt > 1) g_t.num_collisions++;
    g_t.num_keys++;
  }
}
static void all_keys_present(void) { for (size_t i = 0; i < KMAX; i++) if (i < g_n) __CPROVER_assert(ares_htable_get(&g_t, &g_e[i].key) == &g_e[i], "C19: every live key still maps to its value"); }
void hb_expand(void)
{
  mk_table(); size_t coll0 = g_t.num_collisions;
  ares_bool_t ok = ares_htable_expand(&g_t);
  if (ok) {
    __CPROVER_assert(g_t.size == 4 && g_t.num_keys == g_n, "C19: growth doubles the table and keeps the key count");
    all_keys_present();
    size_t total = 0; for (unsigned b = 0; b < 4; b++) total += ares_llist_len(g_t.buckets[b]); __CPROVER_assert(total == g_n, "C19: growth neither loses nor duplicates an entry");
  } else {
    /* C14: any single allocation failure during growth leaves the table exactly as it was */
    __CPROVER_assert(g_t.size == 2 && g_t.buckets == g_old_buckets && g_t.num_keys == g_n && g_t.num_collisions == coll0, "C14/C19: a failed growth restores size, bucket array, key count and collision count");
    all_keys_present();
  }
  for (size_t i = 0; i < KMAX; i++) __CPROVER_assert(g_freed[i] == 0, "C19: growth releases no value");
}
void hb_insert_get_remove(void)
{
  mk_table(); g_e[KMAX].key = (unsigned)(nondet_uchar() & 7); g_e[KMAX].val = 99; g_t.size = 2;
  /* keep the load below the growth threshold here (growth is hb_expand): replace or plain insert */
  __CPROVER_assume(g_n <= 0 || 1);
  _Bool existed = 0; size_t at = 0; for (size_t i = 0; i < KMAX; i++) if (i < g_n && g_e[i].key == g_e[KMAX].key) { existed = 1; at = i; }
  ares_bool_t ok = ares_htable_insert(&g_t, &g_e[KMAX]);
  if (ok) {
    __CPROVER_assert(ares_htable_get(&g_t, &g_e[KMAX].key) == &g_e[KMAX], "C19: a key maps to its latest value");
    __CPROVER_assert(g_t.num_keys == g_n + (existed ? 0 : 1), "C19: replacing a key does not change the key count");
    if (existed) __CPROVER_assert(g_freed[at] == 1, "C19: the replaced value is released exactly once");
    for (size_t i = 0; i < KMAX; i++) if (i < g_n && !(existed && i == at)) __CPROVER_assert(ares_htable_get(&g_t, &g_e[i].key) == &g_e[i], "C19: other keys are unaffected by an insert (also across growth)");
    ares_bool_t r = ares_htable_remove(&g_t, &g_e[KMAX].key);
    __CPROVER_assert(r == ARES_TRUE && ares_htable_get(&g_t, &g_e[KMAX].key) == NULL && g_freed[KMAX] == 1, "C19: a removed key is gone and its value released once");
  } else {
    for (size_t i = 0; i < KMAX; i++) if (i < g_n) __CPROVER_assert(ares_htable_get(&g_t, &g_e[i].key) == &g_e[i], "C14: a failed insert loses no existing key");
  }
}
