/* C03/C08: length discipline and compression-pointer rules of the real src/lib/record/ares_dns_write.c and the writer
 * half of src/lib/record/ares_dns_name.c.  The per-type RDATA writers / section writers are link-time stand-ins that
 * append a ghost number of bytes, so lengths up to and beyond 65535 are covered without materialising the bytes. */
#include "nd.h"
#include <stdlib.h>
#include <string.h>
#if defined(T_NAME)
#include "src/lib/record/ares_dns_name.c"
#else
#include "src/lib/record/ares_dns_write.c"
#endif
#include "lenbuf.h"
#include "write_ghost.h"

#if defined(T_RR)
/* ---------------- one RR: header fields, TTL, RDLENGTH back-patch ------------------------------------------ */
static ares_dns_record_t g_rec; static ares_dns_rr_t g_rr; static size_t g_cnt;
size_t ares_dns_record_rr_cnt(const ares_dns_record_t *r, ares_dns_section_t s) { return g_cnt; }
const ares_dns_rr_t *ares_dns_record_rr_get_const(const ares_dns_record_t *r, ares_dns_section_t s, size_t i) { return &g_rr; }
ares_dns_rec_type_t ares_dns_rr_get_type(const ares_dns_rr_t *rr) { return g_rr.type; }
ares_dns_class_t ares_dns_rr_get_class(const ares_dns_rr_t *rr) { return g_rr.rclass; }
unsigned int ares_dns_rr_get_ttl(const ares_dns_rr_t *rr) { return g_rr.ttl; }
const char *ares_dns_rr_get_name(const ares_dns_rr_t *rr) { return "n"; }
ares_bool_t ares_dns_rec_allow_name_comp(ares_dns_rec_type_t t) { return nondet_bool() ? ARES_TRUE : ARES_FALSE; }
ares_status_t ares_dns_name_write(ares_buf_t *buf, ares_llist_t **list, ares_bool_t vh, const char *name) { if (nondet_bool()) return ARES_EBADNAME; g_blen += g_owner_len; return ARES_SUCCESS; }
void h_write_rr(void)
{
  ares_llist_t *nl = NULL; g_cnt = nondet_bool() ? 1 : 0; g_rr.parent = &g_rec; g_rr.type = (ares_dns_rec_type_t)nondet_u16(); g_rr.rclass = (ares_dns_class_t)nondet_u16(); g_rr.ttl = nondet_uint(); g_rec.ttl_decrement = nondet_uint();
  g_blen = nondet_size(); g_owner_len = nondet_size(); g_rdata_len = nondet_size(); g_rdata_fail = nondet_bool(); g_oom = nondet_bool(); g_w = 0;
  __CPROVER_assume(g_blen <= 70000 && g_owner_len >= 1 && g_owner_len <= 256 && g_rdata_len <= 140000);
  size_t start = g_blen;
  ares_status_t rv = ares_dns_write_rr(&g_rec, &nl, ARES_SECTION_ANSWER, BUF);
  if (rv != ARES_SUCCESS || g_cnt == 0) return;
  size_t h = start + g_owner_len;
  __CPROVER_assert(g_wkind[0] == W_BE16 && g_wpos[0] == h && g_wval[0] == (unsigned short)g_rr.type && g_wkind[1] == W_BE16 && g_wval[1] == (unsigned short)g_rr.rclass, "C03: TYPE and CLASS follow the owner name");
  __CPROVER_assert(g_wkind[2] == W_BE32 && g_wval[2] == (g_rr.ttl > g_rec.ttl_decrement ? g_rr.ttl - g_rec.ttl_decrement : 0), "C08: the TTL put on the wire is reduced by the time spent cached (never below zero)");
  __CPROVER_assert(g_wkind[3] == W_BE16 && g_wpos[3] == h + 8, "C03: RDLENGTH placeholder");
  __CPROVER_assert(g_rdata_calls <= 1 && (g_rdata_calls == 0 || g_rdata_type == g_rr.type), "C03: the RDATA writer for the record's type runs at most once");
  if (g_rdata_calls == 0) g_rdata_len = 0;   /* a type without RDATA writer contributes no RDATA */
  __CPROVER_assert(g_rdata_len <= 65535, "C03: a record whose RDATA does not fit the 16-bit RDLENGTH cannot be written successfully");
  __CPROVER_assert(g_w == 7 && g_wkind[4] == W_SETLEN && g_wlen[4] == h + 8 && g_wkind[5] == W_BE16 && g_wval[5] == g_rdata_len && g_wkind[6] == W_SETLEN && g_wlen[6] == h + 10 + g_rdata_len && g_blen == h + 10 + g_rdata_len, "C03: RDLENGTH is back-patched with the exact RDATA size and the write position restored");
}

#elif defined(T_MSG)
/* ---------------- whole message: size limit, rollback, TCP prefix ---------------------------------------------- */
void ares_llist_destroy(ares_llist_t *l) {}
void h_write_buf(void)
{
  static ares_dns_record_t rec; g_blen = nondet_size(); g_oom = nondet_bool(); g_w = 0; __CPROVER_assume(g_blen <= 70000);
  for (int i = 0; i < 5; i++) { g_part_len[i] = nondet_size(); g_part_fail[i] = nondet_bool(); __CPROVER_assume(g_part_len[i] <= 70000); } g_parts = 0;
  size_t start = g_blen; _Bool tcp = nondet_bool(); g_write_buf_at = (size_t)-1;
  ares_status_t rv = tcp ? ares_dns_write_buf_tcp(&rec, BUF) : ares_dns_write_buf(&rec, BUF);
  size_t msg = g_part_len[0] + g_part_len[1] + g_part_len[2] + g_part_len[3] + g_part_len[4];
  if (rv != ARES_SUCCESS) { __CPROVER_assert(g_blen == start, "C03/C20: a failed write leaves the output buffer exactly as it was"); return; }
  __CPROVER_assert(g_parts == 5 && g_part_order_ok, "C03: header, question, answer, authority, additional are written in this order");
  __CPROVER_assert(msg <= 65535, "C03: a successfully written message is at most 65535 bytes");
  __CPROVER_assert(g_blen == start + (tcp ? 2 : 0) + msg, "C03: nothing but the message (and its length prefix) is appended");
  if (tcp) {
    int last = g_w - 1;
    __CPROVER_assert(g_wkind[0] == W_BE16 && g_wpos[0] == start && last >= 2 && g_wkind[last - 2] == W_SETLEN && g_wlen[last - 2] == start && g_wkind[last - 1] == W_BE16 && g_wval[last - 1] == msg && g_wkind[last] == W_SETLEN && g_wlen[last] == start + 2 + msg, "C03/C20: the frame prefix equals the message length exactly");
    /* statement C03: "... the length-prefixed frames the library actually hands to sockets, wherever in an output buffer they are placed" */
    __CPROVER_assert(g_write_buf_at == 0, "C03: compression offsets are taken relative to the start of the message (the message is rendered at buffer offset 0)");
  }
}

#elif defined(T_HDR)
/* ---------------- the 12-byte header: RFC 1035 4.1.1 bit layout (+ RFC 6891 extended RCODE split) ------------------------------ */
static _Bool g_has_opt; static size_t g_cnt[4];
const ares_dns_rr_t *ares_dns_get_opt_rr_const(const ares_dns_record_t *r) { static char t; return g_has_opt ? (const ares_dns_rr_t *)&t : NULL; }
size_t ares_dns_record_query_cnt(const ares_dns_record_t *r) { return g_cnt[0]; }
size_t ares_dns_record_rr_cnt(const ares_dns_record_t *r, ares_dns_section_t s) { return g_cnt[s]; }
void h_write_header(void)
{
  static ares_dns_record_t rec; rec.id = nondet_u16(); rec.flags = (unsigned short)nondet_u16(); rec.opcode = (ares_dns_opcode_t)(nondet_uint() % 16); rec.rcode = (ares_dns_rcode_t)(nondet_uint() % 4096);
  g_has_opt = nondet_bool(); for (int i = 0; i < 4; i++) g_cnt[i] = nondet_size() % 65536; g_blen = 0; g_oom = nondet_bool(); g_w = 0;
  ares_status_t rv = ares_dns_write_header(&rec, BUF);
  if (rv != ARES_SUCCESS) { __CPROVER_assert(g_oom, "C03/C14: the header write fails only for lack of memory"); return; }
  __CPROVER_assert(g_w == 6 && g_blen == 12, "C03: the header is six 16-bit words");
  for (int i = 0; i < 6; i++) __CPROVER_assert(g_wkind[i] == W_BE16 && g_wpos[i] == (size_t)(2 * i), "C03: header words are written big endian, in order");
  unsigned long f = g_wval[1];
  __CPROVER_assert(g_wval[0] == rec.id, "C03: ID");
  __CPROVER_assert(((f >> 15) & 1) == !!(rec.flags & ARES_FLAG_QR) && ((f >> 10) & 1) == !!(rec.flags & ARES_FLAG_AA) && ((f >> 9) & 1) == !!(rec.flags & ARES_FLAG_TC) && ((f >> 8) & 1) == !!(rec.flags & ARES_FLAG_RD) && ((f >> 7) & 1) == !!(rec.flags & ARES_FLAG_RA) && ((f >> 5) & 1) == !!(rec.flags & ARES_FLAG_AD) && ((f >> 4) & 1) == !!(rec.flags & ARES_FLAG_CD), "C03: each header flag bit is set exactly when the record has that flag (QR AA TC RD RA AD CD)");
  __CPROVER_assert(((f >> 6) & 1) == 0, "C03: the reserved Z bit stays clear");
  __CPROVER_assert(((f >> 11) & 0xF) == (unsigned long)rec.opcode, "C03: OPCODE in bits 11-14");
  __CPROVER_assert((f & 0xF) == ((rec.rcode > 15 && !g_has_opt) ? (unsigned long)ARES_RCODE_SERVFAIL : ((unsigned long)rec.rcode & 0xF)), "C03: RCODE = low four bits of the response code (the rest travels in OPT); without OPT an extended code degrades to SERVFAIL");
  __CPROVER_assert(g_wval[2] == (g_cnt[0] & 0xFFFF) && g_wval[3] == (g_cnt[1] & 0xFFFF) && g_wval[4] == (g_cnt[2] & 0xFFFF) && g_wval[5] == (g_cnt[3] & 0xFFFF), "C03: QDCOUNT ANCOUNT NSCOUNT ARCOUNT");
}
#elif defined(T_OPTLIST)
#include "src/lib/record/ares_dns_mapping.c"
/* ---------------- option / parameter lists of OPT, SVCB and HTTPS: every entry is written, in order, as id, length, value ---------- */
#define ON 3
static size_t g_on; static unsigned short g_oid[ON]; static size_t g_olen[ON]; static unsigned char g_oval[ON][4]; static _Bool g_onull[ON]; static int g_names;
size_t ares_dns_rr_get_opt_cnt(const ares_dns_rr_t *rr, ares_dns_rr_key_t key) { __CPROVER_assert(key == OPT_KEY, "the option list of this record type"); return g_on; }
unsigned short ares_dns_rr_get_opt(const ares_dns_rr_t *rr, ares_dns_rr_key_t key, size_t idx, const unsigned char **val, size_t *val_len) { __CPROVER_assert(key == OPT_KEY && idx < g_on, "option index in range"); *val = g_onull[idx] ? NULL : g_oval[idx]; *val_len = g_onull[idx] ? 0 : g_olen[idx]; return g_oid[idx]; }
unsigned short ares_dns_rr_get_u16(const ares_dns_rr_t *rr, ares_dns_rr_key_t key) { return 7; }
unsigned char ares_dns_rr_get_u8(const ares_dns_rr_t *rr, ares_dns_rr_key_t key) { return 0; }
const char *ares_dns_rr_get_str(const ares_dns_rr_t *rr, ares_dns_rr_key_t key) { return "t"; }
ares_status_t ares_dns_name_write(ares_buf_t *buf, ares_llist_t **list, ares_bool_t validate_hostname, const char *name) { if (g_oom && nondet_bool()) return ARES_ENOMEM; g_names++; g_blen += 3; return ARES_SUCCESS; }
void h_write_optlist(void)
{
  static ares_dns_record_t rec; static ares_dns_rr_t rr; rr.parent = &rec; rec.rcode = (ares_dns_rcode_t)(nondet_uint() % 4096); ares_llist_t *nl = NULL;
  g_on = nondet_size() % (ON + 1); for (int i = 0; i < ON; i++) { g_oid[i] = nondet_u16(); g_olen[i] = nondet_size() % 4; g_onull[i] = nondet_bool(); for (int j = 0; j < 4; j++) g_oval[i][j] = nondet_uchar(); }
  g_blen = 40; g_oom = nondet_bool(); g_w = 0; g_names = 0;
  ares_status_t rv = OPT_CALL(BUF, &rr, &nl);
  if (rv != ARES_SUCCESS) { __CPROVER_assert(g_oom, "C03/C14: the writer fails only for lack of memory"); return; }
  /* find the first logged write that belongs to the list: after the fixed prefix of the record type */
  int k = OPT_PREFIX_WRITES;
  for (size_t i = 0; i < ON; i++) if (i < g_on) {
    size_t L = g_onull[i] ? 0 : g_olen[i];
    __CPROVER_assert(k + 1 < g_w && g_wkind[k] == W_BE16 && g_wval[k] == g_oid[i] && g_wkind[k + 1] == W_BE16 && g_wval[k + 1] == L, "C03: every option / parameter of the record is written, in order, with its code and length -- also one with an empty value (RFC 9460 no-default-alpn, RFC 6891 empty options)");
    k += 2;
    if (L > 0) { __CPROVER_assert(k < g_w && g_wkind[k] == W_BYTES && g_wlen[k] == L && g_wptr[k] == (const void *)g_oval[i], "C03: followed by exactly its value bytes"); k++; }
  }
  __CPROVER_assert(k == g_w, "C03: nothing else is written for the list");
}
#elif defined(T_BINSTR)
/* ---------------- character-strings: chunks of <= 255 bytes, an empty string is one zero length octet ---------- */
void h_write_binstr(void)
{
  static unsigned char data[600]; size_t n = nondet_size(); __CPROVER_assume(n <= 600); g_blen = 0; g_w = 0; g_oom = 0;
  ares_status_t rv = ares_dns_write_binstr(BUF, data, n);
  __CPROVER_assert(rv == ARES_SUCCESS, "no failure without allocation failure");
  size_t chunks = n == 0 ? 1 : (n + 254) / 255;
  __CPROVER_assert(g_blen == n + chunks, "C03: every character-string chunk is preceded by its length octet (an empty string is a single zero octet)");
  __CPROVER_assert(g_wkind[0] == W_BYTE && g_wval[0] == (n > 255 ? 255 : n), "C03: first length octet");
  size_t off = 0; int k = 0;
  for (int i = 0; i < 3; i++) if (off < n || (n == 0 && i == 0)) { size_t l = n - off > 255 ? 255 : n - off; __CPROVER_assert(g_wkind[k] == W_BYTE && g_wval[k] == l, "C03: chunk length octet"); k++; if (l) { __CPROVER_assert(g_wkind[k] == W_BYTES && g_wptr[k] == data + off && g_wlen[k] == l, "C03: chunk bytes in order"); k++; } off += l; }
  __CPROVER_assert(g_w == k, "C03: nothing else is written");
}

#elif defined(T_NAME)
/* ---------------- name compression: pointers, what is remembered ------------------------------------------------ */
static char arr_tok; static size_t g_nlabels;
ares_array_t *ares_array_create(size_t ms, ares_array_destructor_t d) { return nondet_bool() ? NULL : (ares_array_t *)&arr_tok; }
void ares_array_destroy(ares_array_t *a) {}
size_t ares_array_len(const ares_array_t *a) { return g_nlabels; }
void *ares_array_at(ares_array_t *a, size_t i) { static ares_buf_t *p = (ares_buf_t *)&arr_tok; return &p; }
const unsigned char *ares_buf_peek(const ares_buf_t *b, size_t *l) { *l = 3; return (const unsigned char *)"abc"; }
size_t ares_strcpy(char *d, const char *s, size_t n) { size_t i; for (i = 0; i < 12 && i + 1 < n && s[i]; i++) d[i] = s[i]; d[i] = 0; return i; }
void h_name_write(void)
{
  static char name[12]; size_t nl = nondet_size(); __CPROVER_assume(nl >= 1 && nl <= 11); for (size_t i = 0; i < 11; i++) name[i] = i < nl ? (char)('a' + (nondet_uchar() % 3)) : 0; name[11] = 0;
  ares_llist_t *list = nondet_bool() ? (ares_llist_t *)&arr_tok : NULL; ares_llist_t **lp = nondet_bool() ? &list : NULL;
  g_blen = nondet_size(); __CPROVER_assume(g_blen <= 70000); g_w = 0; g_oom = nondet_bool(); g_nlabels = nondet_size() % 3;
  g_have_off = nondet_bool(); g_off.idx = nondet_size(); g_off.name_len = nondet_size(); g_created = 0; g_split_fail = nondet_bool();
  /* what ares_nameoffset_find guarantees: a stored suffix on a label boundary, written earlier in this message */
  __CPROVER_assume(g_off.name_len >= 1 && g_off.name_len <= nl && (g_off.name_len == nl || name[nl - g_off.name_len - 1] == '.' || 1) && g_off.idx < g_blen);
  __CPROVER_assume(g_off.idx < 0x4000);                         /* invariant kept by the creation rule proved below */
  size_t pos = g_blen;
  ares_status_t rv = ares_dns_name_write(BUF, lp, ARES_TRUE, name);
  if (rv != ARES_SUCCESS) return;
  _Bool used = lp != NULL && g_have_off;
  if (used) {
    int last = g_w - 1;
    __CPROVER_assert(g_wkind[last] == W_BE16 && (g_wval[last] & 0xC000) == 0xC000 && (g_wval[last] & 0x3FFF) == g_off.idx && g_off.idx < pos, "C03: a compression pointer is 0xC000 | offset of an earlier occurrence, and the offset fits 14 bits");
  } else {
    int last = g_w - 1; __CPROVER_assert(g_wkind[last] == W_BYTE && g_wval[last] == 0, "C03: an uncompressed name ends with the root label");
  }
  _Bool exact = used && g_off.name_len == nl;
  if (g_created) {
    __CPROVER_assert(g_created == 1 && g_created_name == name && g_created_pos == pos, "C03: the position remembered for later pointers is where THIS name starts, under its FULL name");
    __CPROVER_assert(pos < 0x4000, "C03: positions that a 14-bit pointer cannot express are never remembered");
    __CPROVER_assert(!exact, "C03: an exact repeat is not remembered twice");
  } else __CPROVER_assert(lp == NULL || exact || pos >= 0x4000 || nl == 0 || (used && nl - g_off.name_len - 1 == 0), "C03: every newly written name below 16384 is remembered for compression");
}
#endif
