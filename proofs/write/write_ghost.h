#ifndef WRITE_GHOST_H
#define WRITE_GHOST_H
#ifdef GHOST_DEFINE
#define G
#else
#define G extern
#endif
G size_t g_owner_len, g_rdata_len, g_part_len[5], g_write_buf_at, g_created_pos; G _Bool g_rdata_fail, g_part_fail[5], g_part_order_ok, g_have_off, g_split_fail; G int g_rdata_calls, g_parts, g_created; G ares_dns_rec_type_t g_rdata_type; G const char *g_created_name;
typedef struct { char *name; size_t name_len; size_t idx; } ghost_off_t;   /* layout of ares_nameoffset_t */
G ghost_off_t g_off;
#endif
