/* ASSUMED: stand-ins for the per-type RDATA writers: append a ghost number of bytes or fail (layout pairs with the parser are covered by the codec lemmas in proofs/buf and the parse cluster) */
#include "ares_private.h"
#include "lenbuf.h"
#include "write_ghost.h"
static ares_status_t rd(ares_dns_rec_type_t t) { g_rdata_calls++; g_rdata_type = t; if (g_rdata_fail) return ARES_ENOMEM; g_blen += g_rdata_len; return ARES_SUCCESS; }
ares_status_t ares_dns_write_rr_a(ares_buf_t *buf, const ares_dns_rr_t *rr, ares_llist_t **namelist) { return rd(ARES_REC_TYPE_A); }
ares_status_t ares_dns_write_rr_ns(ares_buf_t *buf, const ares_dns_rr_t *rr, ares_llist_t **namelist) { return rd(ARES_REC_TYPE_NS); }
ares_status_t ares_dns_write_rr_cname(ares_buf_t *buf, const ares_dns_rr_t *rr, ares_llist_t **namelist) { return rd(ARES_REC_TYPE_CNAME); }
ares_status_t ares_dns_write_rr_soa(ares_buf_t *buf, const ares_dns_rr_t *rr, ares_llist_t **namelist) { return rd(ARES_REC_TYPE_SOA); }
ares_status_t ares_dns_write_rr_ptr(ares_buf_t *buf, const ares_dns_rr_t *rr, ares_llist_t **namelist) { return rd(ARES_REC_TYPE_PTR); }
ares_status_t ares_dns_write_rr_hinfo(ares_buf_t *buf, const ares_dns_rr_t *rr, ares_llist_t **namelist) { return rd(ARES_REC_TYPE_HINFO); }
ares_status_t ares_dns_write_rr_mx(ares_buf_t *buf, const ares_dns_rr_t *rr, ares_llist_t **namelist) { return rd(ARES_REC_TYPE_MX); }
ares_status_t ares_dns_write_rr_txt(ares_buf_t *buf, const ares_dns_rr_t *rr, ares_llist_t **namelist) { return rd(ARES_REC_TYPE_TXT); }
ares_status_t ares_dns_write_rr_sig(ares_buf_t *buf, const ares_dns_rr_t *rr, ares_llist_t **namelist) { return rd(ARES_REC_TYPE_SIG); }
ares_status_t ares_dns_write_rr_aaaa(ares_buf_t *buf, const ares_dns_rr_t *rr, ares_llist_t **namelist) { return rd(ARES_REC_TYPE_AAAA); }
ares_status_t ares_dns_write_rr_srv(ares_buf_t *buf, const ares_dns_rr_t *rr, ares_llist_t **namelist) { return rd(ARES_REC_TYPE_SRV); }
ares_status_t ares_dns_write_rr_naptr(ares_buf_t *buf, const ares_dns_rr_t *rr, ares_llist_t **namelist) { return rd(ARES_REC_TYPE_NAPTR); }
ares_status_t ares_dns_write_rr_opt(ares_buf_t *buf, const ares_dns_rr_t *rr, ares_llist_t **namelist) { return rd(ARES_REC_TYPE_OPT); }
ares_status_t ares_dns_write_rr_tlsa(ares_buf_t *buf, const ares_dns_rr_t *rr, ares_llist_t **namelist) { return rd(ARES_REC_TYPE_TLSA); }
ares_status_t ares_dns_write_rr_svcb(ares_buf_t *buf, const ares_dns_rr_t *rr, ares_llist_t **namelist) { return rd(ARES_REC_TYPE_SVCB); }
ares_status_t ares_dns_write_rr_https(ares_buf_t *buf, const ares_dns_rr_t *rr, ares_llist_t **namelist) { return rd(ARES_REC_TYPE_HTTPS); }
ares_status_t ares_dns_write_rr_uri(ares_buf_t *buf, const ares_dns_rr_t *rr, ares_llist_t **namelist) { return rd(ARES_REC_TYPE_URI); }
ares_status_t ares_dns_write_rr_caa(ares_buf_t *buf, const ares_dns_rr_t *rr, ares_llist_t **namelist) { return rd(ARES_REC_TYPE_CAA); }
ares_status_t ares_dns_write_rr_raw_rr(ares_buf_t *buf, const ares_dns_rr_t *rr, ares_llist_t **namelist) { return rd(ARES_REC_TYPE_RAW_RR); }
