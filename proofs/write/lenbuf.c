#include "ares_private.h"
#include "nd.h"
#include "lenbuf.h"
static ares_status_t wl(int k, size_t n, unsigned long v, const void *p)
{ if (g_oom && nondet_bool()) return ARES_ENOMEM; if (g_w < WLOG) { g_wkind[g_w] = k; g_wpos[g_w] = g_blen; g_wlen[g_w] = n; g_wval[g_w] = v; g_wptr[g_w] = p; } g_w++; g_blen += n; return ARES_SUCCESS; }
size_t ares_buf_len(const ares_buf_t *b) { return g_blen; }
ares_status_t ares_buf_append_byte(ares_buf_t *b, unsigned char c) { return wl(W_BYTE, 1, c, NULL); }
ares_status_t ares_buf_append_be16(ares_buf_t *b, unsigned short v) { return wl(W_BE16, 2, v, NULL); }
ares_status_t ares_buf_append_be32(ares_buf_t *b, unsigned int v) { return wl(W_BE32, 4, v, NULL); }
ares_status_t ares_buf_append(ares_buf_t *b, const unsigned char *d, size_t n) { return wl(W_BYTES, n, 0, d); }
ares_status_t ares_buf_set_length(ares_buf_t *b, size_t n) { if (g_w < WLOG) { g_wkind[g_w] = W_SETLEN; g_wpos[g_w] = g_blen; g_wlen[g_w] = n; } g_w++; g_blen = n; return ARES_SUCCESS; }
