/* ASSUMED: stand-ins for the section writers of ares_dns_write_buf(): append a ghost number of bytes or fail; record the order of calls and where the message starts */
#include "ares_private.h"
#include "lenbuf.h"
#include "write_ghost.h"
static ares_status_t part(int i) { if (g_parts == 0) { g_write_buf_at = g_blen; g_part_order_ok = 1; } if (g_parts != i) g_part_order_ok = 0; g_parts++; if (g_part_fail[i]) return ARES_ENOMEM; g_blen += g_part_len[i]; return ARES_SUCCESS; }
ares_status_t ares_dns_write_header(const ares_dns_record_t *r, ares_buf_t *b) { return part(0); }
ares_status_t ares_dns_write_questions(const ares_dns_record_t *r, ares_llist_t **nl, ares_buf_t *b) { return part(1); }
ares_status_t ares_dns_write_rr(const ares_dns_record_t *r, ares_llist_t **nl, ares_dns_section_t s, ares_buf_t *b) { return part(1 + (int)s); }
