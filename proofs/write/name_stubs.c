/* ASSUMED: stand-ins for the compression table (ares_nameoffset_find / _create) and label splitting; find returns a ghost entry, create records its arguments */
#include "ares_private.h"
#include "lenbuf.h"
#include "write_ghost.h"
const void *ares_nameoffset_find(ares_llist_t *list, const char *name) { return g_have_off ? &g_off : NULL; }
ares_status_t ares_nameoffset_create(ares_llist_t **list, const char *name, size_t idx) { g_created++; g_created_name = name; g_created_pos = idx; return ARES_SUCCESS; }
ares_status_t ares_split_dns_name(ares_array_t *labels, ares_bool_t vh, const char *name) { return g_split_fail ? ARES_EBADNAME : ARES_SUCCESS; }
