/* ASSUMED: output buffer modelled by its length and a log of the 16/32-bit values and chunks appended (ares_buf_len, append functions, set_length); the real buffer is proved in proofs/buf (geometry for all sizes, contents bounded) */
#ifndef LENBUF_H
#define LENBUF_H
#ifdef GHOST_DEFINE
#define G
#else
#define G extern
#endif
#define WLOG 24
G size_t g_blen; G int g_w; G int g_wkind[WLOG]; G size_t g_wpos[WLOG], g_wlen[WLOG]; G unsigned long g_wval[WLOG]; G const void *g_wptr[WLOG]; G _Bool g_oom; G char buf_tok;
#define BUF ((ares_buf_t *)&buf_tok)
enum { W_BYTE = 1, W_BE16, W_BE32, W_BYTES, W_SETLEN };
#endif
