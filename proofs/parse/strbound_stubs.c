/* stand-in for the static character-string helper of ares_dns_parse.c: it checks the bound it is handed and consumes some bytes.
 * The real helper (and ares_buf_parse_dns_binstr_int under it) is exercised by parse.rdata_hinfo/naptr/caa and buf.binstr_oom. */
#include "ares_private.h"
#include "nd.h"
extern size_t sb_len0, sb_rdlen; extern int sb_calls;
ares_status_t ares_dns_parse_and_set_dns_str(ares_buf_t *buf, size_t max_len, ares_dns_rr_t *rr, ares_dns_rr_key_t key, ares_bool_t blank_allowed)
{
  size_t used = sb_len0 - ares_buf_len(buf); sb_calls++;
  __CPROVER_assert(max_len == (used >= sb_rdlen ? 0 : sb_rdlen - used), "C04/C02: a character-string is decoded against exactly the RDATA bytes that remain (so a 255-byte string that fits is accepted and one that overruns RDLENGTH is refused)");
  if (nondet_bool()) return ARES_EBADRESP;
  size_t k = nondet_size(); if (k == 0 || k > max_len || ares_buf_consume(buf, k) != ARES_SUCCESS) return ARES_EBADRESP;
  return ARES_SUCCESS;
}
