/* ASSUMED: stand-in for the RDATA dispatcher ares_dns_parse_rr_data(): consumes a ghost number of bytes (each per-type decoder is proved separately against its RFC layout) */
#include "ares_private.h"
#include "parse_ghost.h"
ares_status_t ares_dns_parse_rr_data(ares_buf_t *buf, size_t rdlength, ares_dns_rr_t *rr, ares_dns_rec_type_t type, unsigned short raw_type, unsigned short raw_class, unsigned int raw_ttl)
{
  g_data_calls++; g_d_type = type; g_d_rdlen = rdlength; g_d_rawtype = raw_type; g_d_rawclass = raw_class; g_d_rawttl = raw_ttl; g_d_at = ares_buf_get_position(buf);
  if (g_data_fail || ares_buf_consume(buf, g_data_consume) != ARES_SUCCESS) return ARES_EBADRESP;
  return ARES_SUCCESS;
}
