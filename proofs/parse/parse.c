/* C04/C02/C14: the real src/lib/record/ares_dns_parse.c (+ str/ares_buf.c, record/ares_dns_mapping.c) against RFC
 * 1035/2782/6891 layouts written directly over the input bytes.  The record under construction is an observer: every
 * ares_dns_rr_set_*() call is logged (key, value) and compared with what the wire says.  Names are abstracted by a
 * stand-in for ares_dns_name_parse() that consumes a ghost number of bytes (the name cluster proves the real one). */
#include "alloc.h"
#define memcpy x_memmove   /* exact byte-loop copy (sizes <= 48 here) */
#include "src/lib/str/ares_buf.c"
#undef memcpy
#include "src/lib/record/ares_dns_mapping.c"
#include "src/lib/record/ares_dns_parse.c"

#ifndef NLEN
#define NLEN 1
#endif
#ifndef BL
#define BL 48
#endif
#define BL_DOC          /* message fragment under test (bytes); every field offset within it is symbolic */
static unsigned char g_msg[BL]; static ares_buf_t g_buf;
/* ---- observer log ---- */
#define LOG 24
static int g_n; static int g_kind[LOG]; static ares_dns_rr_key_t g_key[LOG]; static unsigned long g_val[LOG]; static const void *g_ptr[LOG]; static size_t g_len[LOG]; static unsigned short g_opt[LOG];
enum { K_U8 = 1, K_U16, K_U32, K_A4, K_A6, K_STR, K_BIN, K_ABIN, K_OPT, K_CSTR /* layout only: a <character-string>, logged as K_STR */ };
static size_t g_slen[LOG]; static unsigned char g_sval[LOG][4]; /* what a string setter was given: length (capped at 15) and first bytes */
static ares_status_t lg(int kind, ares_dns_rr_key_t key, unsigned long v, const void *p, size_t l, unsigned short o)
{ if (nondet_bool()) return ARES_ENOMEM; if (g_n < LOG) { g_kind[g_n] = kind; g_key[g_n] = key; g_val[g_n] = v; g_ptr[g_n] = p; g_len[g_n] = l; g_opt[g_n] = o; } g_n++; return ARES_SUCCESS; }
/* ASSUMED: record setters as observers (they may fail for lack of memory; *_own setters take the value on success only) */
static int g_owned; /* heap values currently owned by the record */
ares_status_t ares_dns_rr_set_u8(ares_dns_rr_t *rr, ares_dns_rr_key_t key, unsigned char v) { return lg(K_U8, key, v, NULL, 0, 0); }
ares_status_t ares_dns_rr_set_u16(ares_dns_rr_t *rr, ares_dns_rr_key_t key, unsigned short v) { return lg(K_U16, key, v, NULL, 0, 0); }
ares_status_t ares_dns_rr_set_u32(ares_dns_rr_t *rr, ares_dns_rr_key_t key, unsigned int v) { return lg(K_U32, key, v, NULL, 0, 0); }
static unsigned char g_a4[4], g_a6[16];
ares_status_t ares_dns_rr_set_addr(ares_dns_rr_t *rr, ares_dns_rr_key_t key, const struct in_addr *a) { memcpy(g_a4, a, 4); return lg(K_A4, key, 0, NULL, 4, 0); }
ares_status_t ares_dns_rr_set_addr6(ares_dns_rr_t *rr, ares_dns_rr_key_t key, const struct ares_in6_addr *a) { memcpy(g_a6, a, 16); return lg(K_A6, key, 0, NULL, 16, 0); }
ares_status_t ares_dns_rr_set_str_own(ares_dns_rr_t *rr, ares_dns_rr_key_t key, char *v)
{
  int at = g_n; ares_status_t s = lg(K_STR, key, 0, v, 0, 0);
#ifdef CAPTURE_STR
  if (s == ARES_SUCCESS && at < LOG) { size_t n = 0; while (n < 15 && v[n] != 0) n++; g_slen[at] = n; for (size_t j = 0; j < 4; j++) g_sval[at][j] = j < n ? (unsigned char)v[j] : 0; }
#endif
  if (s == ARES_SUCCESS) { g_owned++; free(v); } return s;
}
static unsigned char g_bin[8]; static size_t g_binlen;
ares_status_t ares_dns_rr_set_bin_own(ares_dns_rr_t *rr, ares_dns_rr_key_t key, unsigned char *v, size_t l) { ares_status_t s = lg(K_BIN, key, 0, v, l, 0); if (s == ARES_SUCCESS) { g_binlen = l; for (size_t i = 0; i < 8; i++) if (i < l) g_bin[i] = v[i]; g_owned++; free(v); } return s; }
static unsigned char g_optval[2][4];
ares_status_t ares_dns_rr_set_opt_own(ares_dns_rr_t *rr, ares_dns_rr_key_t key, unsigned short opt, unsigned char *v, size_t l)
{ static int nopt; if (g_n == 0 || g_kind[g_n - 1] != K_OPT) nopt = 0; ares_status_t s = lg(K_OPT, key, 0, v, l, opt); if (s == ARES_SUCCESS) { for (size_t i = 0; i < 4; i++) if (i < l && nopt < 2) g_optval[nopt][i] = v[i]; nopt++; if (v) { g_owned++; free(v); } } return s; }
static char ms_tok;
ares_status_t ares_dns_rr_set_abin_own(ares_dns_rr_t *rr, ares_dns_rr_key_t key, ares_dns_multistring_t *s) { return lg(K_ABIN, key, 0, s, 0, 0); }
ares_status_t ares_dns_multistring_parse_buf(ares_buf_t *buf, size_t remaining_len, ares_dns_multistring_t **strs, ares_bool_t vp) { if (nondet_bool() || ares_buf_consume(buf, remaining_len) != ARES_SUCCESS) return ARES_EBADRESP; *strs = (ares_dns_multistring_t *)&ms_tok; return ARES_SUCCESS; }
void ares_dns_multistring_destroy(ares_dns_multistring_t *s) {}
/* ASSUMED: ares_dns_name_parse() consumes the encoded name (>= 1 byte) and continues right after it, or fails (name cluster) */
static size_t g_nlen[3]; static int g_names; static size_t g_name_at[3];
ares_status_t ares_dns_name_parse(ares_buf_t *buf, char **name, ares_bool_t is_hostname)
{
  size_t l = g_names < 3 ? g_nlen[g_names] : 1;
  if (nondet_bool() || ares_buf_len(buf) < l) return ARES_EBADNAME;
  if (g_names < 3) g_name_at[g_names] = buf->offset;
  g_names++; buf->offset += l;
  if (name != NULL) { *name = malloc(1); if (*name == NULL) { return ARES_ENOMEM; } (*name)[0] = 0; }
  return ARES_SUCCESS;
}
static ares_dns_record_t g_rec; static ares_dns_rr_t g_rr; static int g_added; static ares_dns_rec_type_t g_add_type; static ares_dns_class_t g_add_class; static unsigned int g_add_ttl; static ares_dns_section_t g_add_sect;
ares_status_t ares_dns_record_rr_add(ares_dns_rr_t **rr_out, ares_dns_record_t *dnsrec, ares_dns_section_t sect, const char *name, ares_dns_rec_type_t type, ares_dns_class_t rclass, unsigned int ttl)
{ if (nondet_bool()) return ARES_ENOMEM; g_added++; g_add_type = type; g_add_class = rclass; g_add_ttl = ttl; g_add_sect = sect; g_rr.parent = &g_rec; g_rr.type = type; *rr_out = &g_rr; return ARES_SUCCESS; }
#ifdef CAPTURE_STR
/* ASSUMED: ares_str_isprint() = every byte satisfies the real ares_isprint() macro (src/lib/str/ares_str.c, a plain loop) */
ares_bool_t ares_str_isprint(const char *str, size_t len) { if (str == NULL && len != 0) return ARES_FALSE; for (size_t i = 0; i < len; i++) if (!ares_isprint(str[i])) return ARES_FALSE; return ARES_TRUE; }
size_t ares_strlen(const char *s) { size_t n = 0; if (s == NULL) return 0; while (n < 15 && s[n] != 0) n++; return n; }
#else
size_t ares_strlen(const char *s) { return nondet_size() % 4; }
#endif

static void mk(void)
{
  for (size_t i = 0; i < BL; i++) g_msg[i] = nondet_uchar();
  size_t dl = nondet_size(), off = 0; __CPROVER_assume(dl >= 1 && dl <= BL);
  g_buf.data = g_msg; g_buf.data_len = dl; g_buf.offset = off; g_buf.tag_offset = SIZE_MAX; g_buf.alloc_buf = NULL; g_buf.alloc_buf_len = 0;
  for (int i = 0; i < 3; i++) g_nlen[i] = NLEN; /* encoded length of each embedded name (constant per obligation: keeps every field offset concrete) */
  g_n = g_names = g_added = g_owned = 0; g_rec.raw_rcode = 0;
}
#define B16(o) ((unsigned long)((g_msg[(o)] << 8) | g_msg[(o) + 1]))
#define B32(o) (((unsigned long)g_msg[(o)] << 24) | ((unsigned long)g_msg[(o) + 1] << 16) | ((unsigned long)g_msg[(o) + 2] << 8) | g_msg[(o) + 3])

/* ---------------- one resource record: header, RDLENGTH reconciliation, fixed-layout RDATA ---------------- */
typedef struct { int kind; ares_dns_rr_key_t key; } fld_t;
#define T(...) { __VA_ARGS__, {0, 0} }
static const fld_t L_A[] = T({K_A4, ARES_RR_A_ADDR}), L_AAAA[] = T({K_A6, ARES_RR_AAAA_ADDR}), L_NS[] = T({K_STR, ARES_RR_NS_NSDNAME}),
  L_CNAME[] = T({K_STR, ARES_RR_CNAME_CNAME}), L_PTR[] = T({K_STR, ARES_RR_PTR_DNAME}), L_MX[] = T({K_U16, ARES_RR_MX_PREFERENCE}, {K_STR, ARES_RR_MX_EXCHANGE}),
  L_SRV[] = T({K_U16, ARES_RR_SRV_PRIORITY}, {K_U16, ARES_RR_SRV_WEIGHT}, {K_U16, ARES_RR_SRV_PORT}, {K_STR, ARES_RR_SRV_TARGET}),
  L_SIG[] = T({K_U16, ARES_RR_SIG_TYPE_COVERED}, {K_U8, ARES_RR_SIG_ALGORITHM}, {K_U8, ARES_RR_SIG_LABELS}, {K_U32, ARES_RR_SIG_ORIGINAL_TTL}, {K_U32, ARES_RR_SIG_EXPIRATION}, {K_U32, ARES_RR_SIG_INCEPTION}, {K_U16, ARES_RR_SIG_KEY_TAG}, {K_STR, ARES_RR_SIG_SIGNERS_NAME}),
  L_URI[] = T({K_U16, ARES_RR_URI_PRIORITY}, {K_U16, ARES_RR_URI_WEIGHT}), L_CAA[] = T({K_U8, ARES_RR_CAA_CRITICAL}, {K_CSTR, ARES_RR_CAA_TAG}),
  L_HINFO[] = T({K_CSTR, ARES_RR_HINFO_CPU}, {K_CSTR, ARES_RR_HINFO_OS}),
  L_NAPTR[] = T({K_U16, ARES_RR_NAPTR_ORDER}, {K_U16, ARES_RR_NAPTR_PREFERENCE}, {K_CSTR, ARES_RR_NAPTR_FLAGS}, {K_CSTR, ARES_RR_NAPTR_SERVICES}, {K_CSTR, ARES_RR_NAPTR_REGEXP}, {K_STR, ARES_RR_NAPTR_REPLACEMENT}),
  L_SOA[] = T({K_STR, ARES_RR_SOA_MNAME}, {K_STR, ARES_RR_SOA_RNAME}, {K_U32, ARES_RR_SOA_SERIAL}, {K_U32, ARES_RR_SOA_REFRESH}, {K_U32, ARES_RR_SOA_RETRY}, {K_U32, ARES_RR_SOA_EXPIRE}, {K_U32, ARES_RR_SOA_MINIMUM});
#ifdef RR_HEADER
/* ---- (a) the RR header and RDLENGTH reconciliation; the per-type decoder is a link-time stand-in that consumes a ghost
 *          number of RDATA bytes (it is proved separately, type by type, below) ---- */
#include "parse_ghost.h"
void h_parse_rr(void)
{
  mk(); ares_dns_section_t sect = (ares_dns_section_t)(1 + nondet_uint() % 3); size_t start = g_buf.offset;
  g_data_consume = nondet_size(); g_data_fail = nondet_bool(); g_data_calls = 0;
  ares_status_t rv = ares_dns_parse_rr(&g_buf, 0, sect, &g_rec);
  __CPROVER_assert(g_buf.offset <= g_buf.data_len, "C02: the read position never leaves the message");
  if (rv != ARES_SUCCESS) { return; }
  size_t h = start + NLEN; unsigned long type = B16(h), cls = B16(h + 2), ttl = B32(h + 4), rdlen = B16(h + 8); size_t r0 = h + 10;
  __CPROVER_assert(g_added == 1 && g_add_sect == sect, "C04: one record is added to the section being parsed");
  __CPROVER_assert(r0 + rdlen <= g_buf.data_len && g_buf.offset == r0 + rdlen, "C04/C02: RDLENGTH is honoured: parsing continues exactly after the RDATA");
  __CPROVER_assert(g_data_consume <= rdlen, "C04: a record whose RDATA is longer than RDLENGTH is rejected");
  __CPROVER_assert(ares_dns_rec_type_isvalid((ares_dns_rec_type_t)type, ARES_FALSE) ? g_add_type == (ares_dns_rec_type_t)type : g_add_type == ARES_REC_TYPE_RAW_RR, "C04: TYPE is reported as on the wire, unknown types become raw records");
  if (g_add_type != ARES_REC_TYPE_OPT) __CPROVER_assert(g_add_class == (ares_dns_class_t)cls && g_add_ttl == (unsigned int)ttl, "C04: CLASS and TTL are reported as on the wire");
  else __CPROVER_assert(g_add_class == ARES_CLASS_IN && g_add_ttl == 0, "C04: OPT has no class/TTL of its own");
  __CPROVER_assert(g_data_calls == 1 && g_d_type == g_add_type && g_d_rdlen == rdlen && g_d_rawtype == type && g_d_rawclass == cls && g_d_rawttl == ttl && g_d_at == r0, "C04: the RDATA decoder gets the wire TYPE/CLASS/TTL/RDLENGTH and starts at the RDATA");
}
#else
/* ---- (b) one fixed-layout RDATA decoder per obligation, called directly ---- */
#ifdef RDATA_CALL
#ifdef STR_BOUNDS
size_t sb_len0, sb_rdlen; int sb_calls;
#endif
void h_parse_rdata(void)
{
  mk(); size_t r0 = g_buf.offset; size_t rdlen = nondet_size(); __CPROVER_assume(rdlen <= g_buf.data_len - r0);
  unsigned short raw_type = nondet_u16(), cls = nondet_u16(); unsigned int ttl = nondet_uint(); g_rr.parent = &g_rec; g_nlen[1] = g_nlen[0]; g_nlen[2] = g_nlen[0];
#ifdef STR_BOUNDS
  sb_len0 = ares_buf_len(&g_buf); sb_rdlen = rdlen; sb_calls = 0;
#endif
  ares_status_t rv = RDATA_CALL;
#ifdef STR_BOUNDS
  __CPROVER_assert(rv != ARES_SUCCESS || sb_calls >= 1, "the decoder parses its character-strings through the checked helper"); return;
#endif
  __CPROVER_assert(g_buf.offset <= g_buf.data_len, "C02: the read position never leaves the message");
  if (rv != ARES_SUCCESS) { return; }
  if (g_buf.offset - r0 > rdlen) { return; }   /* decoder ran past RDLENGTH (still inside the message): ares_dns_parse_rr rejects the record (parse.rr_header) */
  const fld_t *lay = RDATA_LAYOUT;
  if (lay != NULL) {
    size_t o = r0; int nm = 0; int i;
    for (i = 0; i < 8 && lay[i].kind != 0; i++) {
      __CPROVER_assert(i < g_n && g_kind[i] == (lay[i].kind == K_CSTR ? K_STR : lay[i].kind) && g_key[i] == lay[i].key, "C04: RDATA fields are decoded in RFC order into the right keys");
      switch (lay[i].kind) {
        case K_U8: __CPROVER_assert(g_val[i] == g_msg[o], "C04: 8-bit RDATA field equals the wire byte"); o += 1; break;
        case K_CSTR: { size_t L = g_msg[o]; __CPROVER_assert(g_slen[i] == L, "C04: a character-string has the length its length octet says");
                       for (size_t j = 0; j < 4; j++) if (j < L) __CPROVER_assert(g_sval[i][j] == g_msg[o + 1 + j], "C04: character-string bytes as on the wire"); o += 1 + L; break; }
        case K_U16: __CPROVER_assert(g_val[i] == B16(o), "C04: 16-bit RDATA field equals the wire bytes (big endian)"); o += 2; break;
        case K_U32: __CPROVER_assert(g_val[i] == B32(o), "C04: 32-bit RDATA field equals the wire bytes (big endian)"); o += 4; break;
        case K_A4: __CPROVER_assert(memcmp(g_a4, g_msg + o, 4) == 0, "C04: IPv4 address bytes as on the wire"); o += 4; break;
        case K_A6: __CPROVER_assert(memcmp(g_a6, g_msg + o, 16) == 0, "C04: IPv6 address bytes as on the wire"); o += 16; break;
        case K_STR: __CPROVER_assert(g_name_at[nm] == o, "C04: an embedded domain name is decoded where the layout says it starts"); o += g_nlen[nm]; nm++; break;
        default: break;
      }
    }
#if defined(REST_BIN_KEY)
    /* the rest of the RDATA is one opaque field (RFC 2535 signature, RFC 8659 value) */
    __CPROVER_assert(g_n == i + 1 && g_kind[i] == K_BIN && g_key[i] == REST_BIN_KEY && o < r0 + rdlen && g_len[i] == r0 + rdlen - o && g_buf.offset == r0 + rdlen, "C04: the remaining RDATA is reported as one binary field of exactly that length");
    for (size_t j = 0; j < 8; j++) if (j < g_len[i]) __CPROVER_assert(g_bin[j] == g_msg[o + j], "C04: remaining RDATA bytes as on the wire");
#elif defined(REST_STR_KEY)
    __CPROVER_assert(g_n == i + 1 && g_kind[i] == K_STR && g_key[i] == REST_STR_KEY && o < r0 + rdlen && g_buf.offset == r0 + rdlen, "C04: the remaining RDATA is reported as one text field");
    { size_t L = r0 + rdlen - o; _Bool nul = 0; for (size_t j = 0; j < 4; j++) if (j < L) { if (g_msg[o + j] == 0) nul = 1; if (!nul) __CPROVER_assert(g_sval[i][j] == g_msg[o + j], "C04: text bytes as on the wire"); } }
#else
    __CPROVER_assert(g_n == i && g_buf.offset == o, "C04: nothing else is reported or consumed for this record");
#endif
  }
#ifdef CHECK_RAW
  __CPROVER_assert(g_n >= 1 && g_kind[0] == K_U16 && g_key[0] == ARES_RR_RAW_RR_TYPE && g_val[0] == raw_type, "C04: an undecoded record reports its wire TYPE, also when its RDATA is empty");
  if (rdlen > 0) { __CPROVER_assert(g_n == 2 && g_kind[1] == K_BIN && g_key[1] == ARES_RR_RAW_RR_DATA && g_len[1] == rdlen && g_buf.offset == r0 + rdlen, "C04: an undecoded record carries exactly its RDATA"); for (size_t i = 0; i < 8; i++) if (i < rdlen) __CPROVER_assert(g_bin[i] == g_msg[r0 + i], "C04: raw RDATA bytes as on the wire"); }
  else __CPROVER_assert(g_n == 1, "C04: empty RDATA, no data field");
#endif
#ifdef CHECK_OPT
  __CPROVER_assert(g_n >= 3 && g_key[0] == ARES_RR_OPT_UDP_SIZE && g_val[0] == cls && g_key[1] == ARES_RR_OPT_VERSION && g_val[1] == ((ttl >> 16) & 0xff) && g_key[2] == ARES_RR_OPT_FLAGS && g_val[2] == (ttl & 0xffff), "C04: OPT overloading (RFC 6891): UDP size = CLASS, version = TTL[23:16], flags = TTL[15:0]");
  __CPROVER_assert(g_rec.raw_rcode == ((ttl >> 20) & 0x0ff0), "C04: extended RCODE = TTL[31:24] placed above the header's 4 bits");
#define TLV_AT r0
#define TLV_K 3
#define TLV_KEY ARES_RR_OPT_OPTIONS
#endif
#ifdef CHECK_SVC
  /* SVCB / HTTPS (RFC 9460): priority, target name, then the parameter list */
  __CPROVER_assert(g_n >= 2 && g_kind[0] == K_U16 && g_key[0] == SVC_PRIO_KEY && g_val[0] == B16(r0) && g_kind[1] == K_STR && g_key[1] == SVC_TARGET_KEY && g_name_at[0] == r0 + 2, "C04: SVCB/HTTPS priority and target as laid out in RFC 9460");
#define TLV_AT (r0 + 2 + NLEN)
#define TLV_K 2
#define TLV_KEY SVC_PARAMS_KEY
#endif
#ifdef TLV_K
  { size_t o = TLV_AT; int k = TLV_K;
    for (int i = 0; i < 3; i++) if (o < r0 + rdlen) {
      __CPROVER_assert(o + 4 <= r0 + rdlen && k < g_n && g_kind[k] == K_OPT && g_key[k] == TLV_KEY && g_opt[k] == B16(o) && g_len[k] == B16(o + 2), "C04: every option / parameter on the wire is reported with its code and length, in order (also a final empty one)");
      if (k - TLV_K < 2) for (size_t j = 0; j < 4; j++) if (j < g_len[k]) __CPROVER_assert(g_optval[k - TLV_K][j] == g_msg[o + 4 + j], "C04: option value bytes as on the wire");
      o += 4 + B16(o + 2); k++;
    }
    __CPROVER_assert(o < r0 + rdlen || (g_n == k && g_buf.offset == o), "C04: no option is invented or dropped"); }
#endif
#ifdef CHECK_TLSA
  __CPROVER_assert(g_n == 4 && g_key[0] == ARES_RR_TLSA_CERT_USAGE && g_val[0] == g_msg[r0] && g_key[1] == ARES_RR_TLSA_SELECTOR && g_val[1] == g_msg[r0 + 1] && g_key[2] == ARES_RR_TLSA_MATCH && g_val[2] == g_msg[r0 + 2], "C04: TLSA usage / selector / matching type bytes (RFC 6698)");
  __CPROVER_assert(g_kind[3] == K_BIN && g_key[3] == ARES_RR_TLSA_DATA && g_len[3] == rdlen - 3 && g_buf.offset == r0 + rdlen, "C04: TLSA certificate association data is the rest of the RDATA");
  for (size_t i = 0; i < 8; i++) if (i < g_len[3]) __CPROVER_assert(g_bin[i] == g_msg[r0 + 3 + i], "C04: TLSA data bytes as on the wire");
#endif
}
#endif
#endif

/* ---------------- message header ------------------------------------------------------------------------------ */
static int g_created; static unsigned short g_c_id, g_c_flags; static ares_dns_opcode_t g_c_opcode; static size_t g_prealloc[4]; static int g_destroyed;
ares_status_t ares_dns_record_create(ares_dns_record_t **dnsrec, unsigned short id, unsigned short flags, ares_dns_opcode_t opcode, ares_dns_rcode_t rcode)
{ if (nondet_bool()) { *dnsrec = NULL; return ARES_ENOMEM; } g_created++; g_c_id = id; g_c_flags = flags; g_c_opcode = opcode; *dnsrec = &g_rec; return ARES_SUCCESS; }
ares_status_t ares_dns_record_rr_prealloc(ares_dns_record_t *dnsrec, ares_dns_section_t sect, size_t cnt) { if (nondet_bool()) return ARES_ENOMEM; g_prealloc[sect] = cnt; return ARES_SUCCESS; }
void ares_dns_record_destroy(ares_dns_record_t *r) { if (r) g_destroyed++; }
void h_parse_header(void)
{
  mk(); size_t s = g_buf.offset; ares_dns_record_t *rec = NULL; unsigned short qd, an, ns, ar; g_created = g_destroyed = 0;
  ares_status_t rv = ares_dns_parse_header(&g_buf, 0, &rec, &qd, &an, &ns, &ar);
  if (rv != ARES_SUCCESS) { __CPROVER_assert(rec == NULL && g_destroyed == g_created, "C02: an error leaves no result behind (the partial record is released)"); return; }
  unsigned long w = B16(s + 2);
  __CPROVER_assert(g_buf.offset == s + 12 && rec == &g_rec, "C04: the header is 12 bytes");
  __CPROVER_assert(g_c_id == B16(s), "C04: ID as on the wire");
  __CPROVER_assert(g_c_flags == (((w & 0x8000) ? ARES_FLAG_QR : 0) | ((w & 0x400) ? ARES_FLAG_AA : 0) | ((w & 0x200) ? ARES_FLAG_TC : 0) | ((w & 0x100) ? ARES_FLAG_RD : 0) | ((w & 0x80) ? ARES_FLAG_RA : 0) | ((w & 0x20) ? ARES_FLAG_AD : 0) | ((w & 0x10) ? ARES_FLAG_CD : 0)), "C04: QR AA TC RD RA AD CD bits as on the wire (RFC 1035/4035)");
  __CPROVER_assert(g_c_opcode == (ares_dns_opcode_t)((w >> 11) & 0xf) && g_rec.raw_rcode == (w & 0xf), "C04: OPCODE and RCODE as on the wire");
  __CPROVER_assert(qd == B16(s + 4) && an == B16(s + 6) && ns == B16(s + 8) && ar == B16(s + 10), "C04: the four section counts as on the wire");
}
