/* C04: the validity tables of the real src/lib/record/ares_dns_mapping.c that decide whether a wire value is reported as it is or
 * replaced by a fallback: every response code assigned by IANA (0-11, 16-23) is valid, nothing else is; checked for all 65536 values
 * (the switch is loop free). */
#include "nd.h"
#include "src/lib/record/ares_dns_mapping.c"
void h_rcode_valid(void)
{
  unsigned r = nondet_u16();
  _Bool want = r <= 11 || (r >= 16 && r <= 23);
  __CPROVER_assert((ares_dns_rcode_isvalid((ares_dns_rcode_t)r) == ARES_TRUE) == want, "C04: a response code is reported as on the wire exactly when it is an assigned code (0-11 incl. DSOTYPEI, 16-23 BADSIG..BADCOOKIE); only unassigned ones fall back to SERVFAIL");
  unsigned o = nondet_u16();
  __CPROVER_assert((ares_dns_opcode_isvalid((ares_dns_opcode_t)o) == ARES_TRUE) == (o == 0 || o == 1 || o == 2 || o == 4 || o == 5), "C04: an opcode is valid exactly when it is QUERY, IQUERY, STATUS, NOTIFY or UPDATE");
  unsigned c = nondet_u16();
  __CPROVER_assert((ares_dns_class_isvalid((ares_dns_class_t)c, ARES_REC_TYPE_A, ARES_FALSE) == ARES_TRUE) == (c == 1 || c == 3 || c == 4 || c == 254), "C04: a record class is valid exactly when it is IN, CHAOS, HESIOD or NONE (ANY only in questions)");
}
