#ifndef PARSE_GHOST_H
#define PARSE_GHOST_H
#ifdef GHOST_DEFINE
#define G
#else
#define G extern
#endif
G size_t g_data_consume, g_d_rdlen, g_d_at; G _Bool g_data_fail; G int g_data_calls; G ares_dns_rec_type_t g_d_type; G unsigned short g_d_rawtype, g_d_rawclass; G unsigned int g_d_rawttl;
#endif
