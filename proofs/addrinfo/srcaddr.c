/* C10: "every socket the library obtains is closed exactly once ... no call on a socket after it was closed":
 * the probe socket of find_src_addr() (real src/lib/ares_sortaddrinfo.c), for every outcome of open/connect/getsockname. */
#include "nd.h"
#include <stdlib.h>
#include <string.h>
#include "src/lib/ares_sortaddrinfo.c"
/* ASSUMED: ghost socket layer: ares_socket_open yields descriptor 9 or fails; connect / getsockname may fail */
static int g_open, g_closed; static _Bool g_open_ok, g_afnosupport, g_conn_fail, g_gsn_fail;
ares_conn_err_t ares_socket_open(ares_socket_t *sock, ares_channel_t *channel, int af, int type, int protocol) { if (!g_open_ok) return g_afnosupport ? ARES_CONN_ERR_AFNOSUPPORT : ARES_CONN_ERR_FAILURE; g_open++; *sock = 9; return ARES_CONN_ERR_SUCCESS; }
void ares_socket_close(ares_channel_t *channel, ares_socket_t s) { __CPROVER_assert(s == 9 && g_open == 1 && g_closed == 0, "C10: a socket is closed once, and only if it was opened"); g_closed++; }
ares_conn_err_t ares_socket_connect(ares_channel_t *channel, ares_socket_t fd, ares_bool_t tfo, const struct sockaddr *sa, ares_socklen_t salen) { __CPROVER_assert(fd == 9 && g_closed == 0, "C10: no I/O on a closed socket"); return g_conn_fail ? ARES_CONN_ERR_CONNREFUSED : (nondet_bool() ? ARES_CONN_ERR_SUCCESS : ARES_CONN_ERR_WOULDBLOCK); }
static int gsn_stub(ares_socket_t s, struct sockaddr *a, ares_socklen_t *l, void *ud) { __CPROVER_assert(s == 9 && g_closed == 0, "C10: no call on a closed socket"); return g_gsn_fail ? -1 : 0; }
void h_find_src_addr(void)
{
  static ares_channel_t ch; static struct sockaddr_storage dst, src; ((struct sockaddr *)&dst)->sa_family = nondet_bool() ? AF_INET : (nondet_bool() ? AF_INET6 : AF_UNIX);
  ch.sock_funcs.agetsockname = nondet_bool() ? gsn_stub : NULL; g_open = g_closed = 0; g_open_ok = nondet_bool(); g_afnosupport = nondet_bool(); g_conn_fail = nondet_bool(); g_gsn_fail = nondet_bool();
  int r = find_src_addr(&ch, (struct sockaddr *)&dst, (struct sockaddr *)&src);
  __CPROVER_assert(g_closed == g_open, "C10: the probe socket is closed on every path (none survives the call, none survives channel destruction)");
  __CPROVER_assert(r == 1 || r == 0 || r == -1, "result");
}
