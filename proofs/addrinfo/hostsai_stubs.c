/* stand-in for the static alias-list builder of ares_hosts_file.c (not part of this obligation) */
#include "ares_private.h"
#include "nd.h"
extern char hai_cn_tok; extern _Bool hai_oom; extern int hai_cn_built;
typedef struct ares_hosts_entry ares_hosts_entry_t;
ares_status_t ares_hosts_ai_append_cnames(const ares_hosts_entry_t *entry, struct ares_addrinfo_cname **cnames_out) { if (hai_oom && nondet_bool()) return ARES_ENOMEM; hai_cn_built++; *cnames_out = (struct ares_addrinfo_cname *)&hai_cn_tok; return ARES_SUCCESS; }
