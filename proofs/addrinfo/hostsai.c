/* C13: addresses that come from the hosts file -- the real ares_hosts_entry_to_addrinfo() and ares_dns_pton() of
 * src/lib/ares_hosts_file.c: exactly the entry's addresses of the requested family (every address for AF_UNSPEC), in file order,
 * each with the requested port and TTL 0, attached to the result only when the whole conversion succeeded; not-found when the
 * entry has no address of that family.
 * ASSUMED: list primitives over <= 3 address strings; ares_inet_pton() accepts a string for exactly one family (ghost);
 * ares_append_ai_node() = addrinfo.localhost; alias list builder stood in for. */
#include "nd.h"
#include <stdlib.h>
#include <string.h>
#include "src/lib/ares_hosts_file.c"
#define IMAX 3
char hai_cn_tok; _Bool hai_oom; int hai_cn_built;
static char ip_tok[IMAX], node_tok[IMAX], name_tok, name_dup, list_tok; static size_t g_nips; static int g_ipfam[IMAX]; static unsigned char g_ipb[IMAX];
static int g_app; static int g_app_fam[IMAX + 1]; static unsigned short g_app_port[IMAX + 1]; static unsigned g_app_ttl[IMAX + 1]; static unsigned char g_app_b[IMAX + 1]; static char ain_tok;
static int g_cat_nodes, g_cat_cnames, g_free_nodes, g_free_cnames; static struct ares_addrinfo_node *g_cat_nodes_arg; static struct ares_addrinfo_cname *g_cat_cn_arg;
ares_llist_node_t *ares_llist_node_first(ares_llist_t *l) { __CPROVER_assert((char *)l == &list_tok, "the entry's address list"); return g_nips ? (ares_llist_node_t *)&node_tok[0] : NULL; }
ares_llist_node_t *ares_llist_node_next(ares_llist_node_t *n) { size_t i = (size_t)((char *)n - node_tok); return i + 1 < g_nips ? (ares_llist_node_t *)&node_tok[i + 1] : NULL; }
void *ares_llist_node_val(ares_llist_node_t *n) { return &ip_tok[(char *)n - node_tok]; }
int ares_inet_pton(int af, const char *src, void *dst) { size_t i = (size_t)(src - ip_tok); if (g_ipfam[i] != af) return 0; ((unsigned char *)dst)[0] = g_ipb[i]; return 1; }
ares_status_t ares_append_ai_node(int aftype, unsigned short port, unsigned int ttl, const void *adata, struct ares_addrinfo_node **nodes)
{ if (hai_oom && nondet_bool()) return ARES_ENOMEM; __CPROVER_assert(g_app < IMAX, "at most one node per address"); g_app_fam[g_app] = aftype; g_app_port[g_app] = port; g_app_ttl[g_app] = ttl; g_app_b[g_app] = ((const unsigned char *)adata)[0]; g_app++; *nodes = (struct ares_addrinfo_node *)&ain_tok; return ARES_SUCCESS; }
char *ares_strdup(const char *s) { if (hai_oom && nondet_bool()) return NULL; return &name_dup; }
void ares_free(void *p) { }
void ares_addrinfo_cat_nodes(struct ares_addrinfo_node **head, struct ares_addrinfo_node *tail) { g_cat_nodes++; g_cat_nodes_arg = tail; }
void ares_addrinfo_cat_cnames(struct ares_addrinfo_cname **head, struct ares_addrinfo_cname *tail) { g_cat_cnames++; g_cat_cn_arg = tail; }
void ares_freeaddrinfo_nodes(struct ares_addrinfo_node *n) { if (n) g_free_nodes++; }
void ares_freeaddrinfo_cnames(struct ares_addrinfo_cname *c) { if (c) g_free_cnames++; }
void h_hosts_to_addrinfo(void)
{
  static ares_hosts_entry_t e; e.ips = (ares_llist_t *)&list_tok; g_nips = nondet_size() % (IMAX + 1); for (int i = 0; i < IMAX; i++) { g_ipfam[i] = nondet_bool() ? AF_INET : (nondet_bool() ? AF_INET6 : -1); g_ipb[i] = nondet_uchar(); }
  static struct ares_addrinfo ai; memset(&ai, 0, sizeof(ai)); int family = nondet_bool() ? AF_UNSPEC : (nondet_bool() ? AF_INET : (nondet_bool() ? AF_INET6 : nondet_int())); unsigned short port = nondet_u16(); ares_bool_t want_cn = nondet_bool() ? ARES_TRUE : ARES_FALSE; _Bool with_name = nondet_bool();
  hai_oom = nondet_bool(); hai_cn_built = 0; g_app = g_cat_nodes = g_cat_cnames = g_free_nodes = g_free_cnames = 0;
  ares_status_t rv = ares_hosts_entry_to_addrinfo(&e, with_name ? &name_tok : NULL, family, port, want_cn, &ai);
  if (family != AF_UNSPEC && family != AF_INET && family != AF_INET6) { __CPROVER_assert(rv == ARES_EBADFAMILY && g_app == 0 && g_cat_nodes == 0, "C13: an unknown family yields nothing"); return; }
  size_t want = 0; for (size_t i = 0; i < IMAX; i++) if (i < g_nips && g_ipfam[i] != -1 && (family == AF_UNSPEC || g_ipfam[i] == family)) want++;
  if (rv != ARES_SUCCESS) {
    __CPROVER_assert(g_cat_nodes == 0 && g_cat_cnames == 0 && ai.name == NULL, "C13/C14: nothing is attached to the result unless the whole conversion succeeded");
    __CPROVER_assert(g_free_nodes == (g_app > 0) , "C14: nodes built so far are released once");
    if (rv == ARES_ENOTFOUND) __CPROVER_assert(want == 0, "C13: not-found only when the entry has no address of the requested family");
    else __CPROVER_assert(rv == ARES_ENOMEM && hai_oom, "C14: otherwise only out of memory");
    return;
  }
  __CPROVER_assert(want > 0 && (size_t)g_app == want && g_cat_nodes == 1 && g_cat_nodes_arg == (struct ares_addrinfo_node *)&ain_tok && g_free_nodes == 0, "C13: the entry's addresses are attached once");
  size_t k = 0; for (size_t i = 0; i < IMAX; i++) if (i < g_nips && g_ipfam[i] != -1 && (family == AF_UNSPEC || g_ipfam[i] == family)) { __CPROVER_assert(g_app_fam[k] == g_ipfam[i] && g_app_b[k] == g_ipb[i] && g_app_port[k] == port && g_app_ttl[k] == 0, "C13: exactly the entry's addresses of the requested family, in file order, with the requested port and TTL 0"); k++; }
  __CPROVER_assert(with_name ? ai.name == &name_dup : ai.name == NULL, "C13: the result is named after the name asked for");
  __CPROVER_assert(g_cat_cnames == 1 && hai_cn_built == (want_cn ? 1 : 0) && g_cat_cn_arg == (want_cn ? (struct ares_addrinfo_cname *)&hai_cn_tok : NULL), "C13: aliases are attached exactly when asked for");
}
