/* C13: the loopback rule -- the real src/lib/ares_addrinfo_localhost.c (ares_addrinfo_localhost, ares_default_loopback_addrs,
 * ares_append_ai_node, ares_ai_has_family): a lookup of "localhost" that no source answered yields exactly ::1 and/or 127.0.0.1,
 * restricted to the requested family, each once, with the requested port (network order) and TTL 0; addresses already present
 * are neither duplicated nor touched.
 * ASSUMED: ares_append_addrinfo_node() appends one zeroed node at the tail or fails; ares_inet_pton() of the two literals. */
#include "nd.h"
#include <stdlib.h>
#include <string.h>
#include "src/lib/ares_addrinfo_localhost.c"
static _Bool g_oom; static char name_dup;
void *ares_malloc(size_t n) { if (g_oom && nondet_bool()) return NULL; void *p = malloc(n); __CPROVER_assume(p != NULL); return p; }
void ares_free(void *p) { if (p != (void *)&name_dup) free(p); }
char *ares_strdup(const char *s) { if (g_oom && nondet_bool()) return NULL; return &name_dup; }
struct ares_addrinfo_node *ares_append_addrinfo_node(struct ares_addrinfo_node **head)
{
  if (g_oom && nondet_bool()) return NULL; struct ares_addrinfo_node *n = calloc(1, sizeof(*n)); __CPROVER_assume(n != NULL);
  if (*head == NULL) *head = n; else { struct ares_addrinfo_node *t = *head; if (t->ai_next != NULL) t = t->ai_next; if (t->ai_next != NULL) t = t->ai_next; __CPROVER_assert(t->ai_next == NULL, "list of <= 3 nodes"); t->ai_next = n; }
  return n;
}
int ares_inet_pton(int af, const char *src, void *dst)
{
  if (af == AF_INET6) { __CPROVER_assert(strcmp(src, "::1") == 0, "C13: the IPv6 loopback literal"); memset(dst, 0, 16); ((unsigned char *)dst)[15] = 1; return 1; }
  __CPROVER_assert(af == AF_INET && strcmp(src, "127.0.0.1") == 0, "C13: the IPv4 loopback literal"); ((unsigned char *)dst)[0] = 127; ((unsigned char *)dst)[1] = 0; ((unsigned char *)dst)[2] = 0; ((unsigned char *)dst)[3] = 1; return 1;
}
void h_localhost(void)
{
  struct ares_addrinfo ai; memset(&ai, 0, sizeof(ai)); struct ares_addrinfo_hints hints; memset(&hints, 0, sizeof(hints)); hints.ai_family = nondet_bool() ? AF_UNSPEC : (nondet_bool() ? AF_INET : (nondet_bool() ? AF_INET6 : nondet_int()));
  unsigned short port = nondet_u16(); g_oom = nondet_bool();
  /* an address that is already in the result (e.g. from the hosts file) */
  static struct ares_addrinfo_node pre; static struct sockaddr_in pre_sa; _Bool have_pre = nondet_bool(); int pre_fam = nondet_bool() ? AF_INET : AF_INET6;
  if (have_pre) { memset(&pre, 0, sizeof(pre)); pre.ai_family = pre_fam; pre.ai_addr = (struct sockaddr *)&pre_sa; pre.ai_ttl = 7; ai.nodes = &pre; }
  ares_status_t st = ares_addrinfo_localhost("localhost", port, &hints, &ai);
  if (hints.ai_family != AF_UNSPEC && hints.ai_family != AF_INET && hints.ai_family != AF_INET6) { __CPROVER_assert(st == ARES_EBADFAMILY && ai.nodes == (have_pre ? &pre : NULL), "C13: an unknown family yields nothing"); return; }
  if (st != ARES_SUCCESS) { __CPROVER_assert(st == ARES_ENOMEM && g_oom, "C14: the loopback rule fails only for lack of memory"); return; }
  __CPROVER_assert(ai.name == &name_dup, "C13: the canonical name is the name asked for");
  struct ares_addrinfo_node *n = ai.nodes;
  if (have_pre) { __CPROVER_assert(n == &pre && pre.ai_family == pre_fam && pre.ai_ttl == 7 && pre.ai_addr == (struct sockaddr *)&pre_sa, "C13: an address already present is kept as it is"); n = n->ai_next; }
  _Bool want6 = (hints.ai_family == AF_UNSPEC || hints.ai_family == AF_INET6) && !(have_pre && pre_fam == AF_INET6);
  _Bool want4 = (hints.ai_family == AF_UNSPEC || hints.ai_family == AF_INET) && !(have_pre && pre_fam == AF_INET);
  if (want6) {
    __CPROVER_assert(n != NULL && n->ai_family == AF_INET6 && n->ai_addrlen == sizeof(struct sockaddr_in6) && n->ai_ttl == 0, "C13: the IPv6 loopback address is added once when IPv6 was asked for and none is present");
    const struct sockaddr_in6 *s6 = (const struct sockaddr_in6 *)n->ai_addr; __CPROVER_assert(s6->sin6_family == AF_INET6 && s6->sin6_port == htons(port), "C13: with the requested port in network order");
    for (int i = 0; i < 16; i++) __CPROVER_assert(s6->sin6_addr.s6_addr[i] == (i == 15 ? 1 : 0), "C13: the address is ::1");
    n = n->ai_next;
  }
  if (want4) {
    __CPROVER_assert(n != NULL && n->ai_family == AF_INET && n->ai_addrlen == sizeof(struct sockaddr_in) && n->ai_ttl == 0, "C13: the IPv4 loopback address is added once when IPv4 was asked for and none is present");
    const struct sockaddr_in *s4 = (const struct sockaddr_in *)n->ai_addr; __CPROVER_assert(s4->sin_family == AF_INET && s4->sin_port == htons(port), "C13: with the requested port in network order");
    const unsigned char *a = (const unsigned char *)&s4->sin_addr; __CPROVER_assert(a[0] == 127 && a[1] == 0 && a[2] == 0 && a[3] == 1, "C13: the address is 127.0.0.1");
    n = n->ai_next;
  }
  __CPROVER_assert(n == NULL, "C13: nothing else is invented, and no family that was not asked for");
}
