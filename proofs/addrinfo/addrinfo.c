/* C13/C18: address results.  Real ares_addrinfo2addrttl (src/lib/ares_addrinfo2hostent.c), the relinking of
 * ares_sortaddrinfo (src/lib/ares_sortaddrinfo.c) and ares_parse_into_addrinfo (src/lib/ares_parse_into_addrinfo.c),
 * on state-constructed lists / a ghost answer section. */
#include "nd.h"
#include <stdlib.h>
#include <string.h>
#if defined(T_TTL)
#ifdef T_HOSTENT
/* exact copy of an address (4 or 16 bytes): CBMC's memcpy with a symbolic length is slow */
static void *ai_memcpy(void *d, const void *s, size_t n) { __CPROVER_assert(n == 4 || n == 16, "address copy of 4 or 16 bytes"); for (size_t i = 0; i < 16; i++) if (i < n) ((unsigned char *)d)[i] = ((const unsigned char *)s)[i]; return d; }
#define memcpy ai_memcpy
#endif
#include "src/lib/ares_addrinfo2hostent.c"
#undef memcpy
#elif defined(T_SORT)
#include "src/lib/ares_sortaddrinfo.c"
#else
#include "src/lib/ares_parse_into_addrinfo.c"
#endif
#define NMAX 3

#if defined(T_TTL) || defined(T_SORT)
static struct ares_addrinfo_node g_node[NMAX]; static struct sockaddr_in g_sa4[NMAX]; static struct sockaddr_in6 g_sa6[NMAX]; static size_t g_nn;
static void mk_nodes(void)
{
  g_nn = nondet_size() % (NMAX + 1);
  for (size_t i = 0; i < NMAX; i++) {
    g_node[i].ai_flags = (int)i;   /* identity tag */
    _Bool v6 = nondet_bool(); g_node[i].ai_family = v6 ? AF_INET6 : AF_INET; g_node[i].ai_ttl = nondet_int(); if (g_node[i].ai_ttl == -77) g_node[i].ai_ttl = 0; g_node[i].ai_next = (i + 1 < g_nn) ? &g_node[i + 1] : NULL;
#ifdef T_TTL
    for (int k = 0; k < 4; k++) ((unsigned char *)&g_sa4[i].sin_addr)[k] = nondet_uchar(); for (int k = 0; k < 16; k++) ((unsigned char *)&g_sa6[i].sin6_addr)[k] = nondet_uchar();
#endif
    g_sa4[i].sin_family = AF_INET; g_sa6[i].sin6_family = AF_INET6; g_node[i].ai_addr = v6 ? (struct sockaddr *)&g_sa6[i] : (struct sockaddr *)&g_sa4[i];
  }
}
#endif

#if defined(T_TTL)
/* ---------------- never more elements than the caller offered; each = (address, min(ttl, alias ttls)) ---------- */
void h_addrttl(void)
{
  static struct ares_addrinfo ai; static struct ares_addrinfo_cname cn[2]; mk_nodes(); ai.nodes = g_nn ? &g_node[0] : NULL;
  size_t nc = nondet_size() % 3; for (int i = 0; i < 2; i++) { cn[i].ttl = nondet_int(); if (cn[i].ttl == -77) cn[i].ttl = 0; cn[i].next = (size_t)(i + 1) < nc ? &cn[i + 1] : NULL; } ai.cnames = nc ? &cn[0] : NULL;
  int family = nondet_bool() ? AF_INET : AF_INET6; size_t req = 1 + nondet_size() % 4; size_t n = 99;
  static struct ares_addrttl a4[5]; static struct ares_addr6ttl a6[5];   /* the caller offered req elements; element [req] is a canary */
  for (int i = 0; i < 5; i++) { a4[i].ttl = -77; a6[i].ttl = -77; }
  ares_status_t rv = ares_addrinfo2addrttl(&ai, family, req, a4, a6, &n);
  __CPROVER_assert(rv == ARES_SUCCESS, "valid arguments");
  int cmin = INT_MAX; for (size_t i = 0; i < 2; i++) if (i < nc && cn[i].ttl < cmin) cmin = cn[i].ttl;
  size_t want = 0; for (size_t i = 0; i < NMAX; i++) if (i < g_nn && g_node[i].ai_family == family) {
    if (want < req) {
      int t = g_node[i].ai_ttl > cmin ? cmin : g_node[i].ai_ttl;
      if (family == AF_INET) __CPROVER_assert(want < n && a4[want].ttl == t && memcmp(&a4[want].ipaddr, &g_sa4[i].sin_addr, 4) == 0, "C18/C13: k-th element = k-th address of the requested family with TTL = min(record TTL, alias TTLs)");
      else __CPROVER_assert(want < n && a6[want].ttl == t && memcmp(&a6[want].ip6addr, &g_sa6[i].sin6_addr, 16) == 0, "C18/C13: k-th IPv6 element = k-th address with TTL = min(record TTL, alias TTLs)");
      want++;
    }
  }
  __CPROVER_assert(n == want && n <= req, "C18/C02: never more array elements than the caller offered; none invented or dropped below the capacity");
  __CPROVER_assert(a4[req].ttl == -77 && a6[req].ttl == -77, "C18/C02: nothing is written beyond the capacity the caller offered (memory safety of the legacy address parsers)");
}

#ifdef T_HOSTENT
/* ---------------- ares_addrinfo2hostent(): the host entry is exactly the addresses of ONE family, in list order, plus the aliases ---------- */
static _Bool g_oom; static int g_he_freed; static char nm_tok[4], nm_dup[4];
void *ares_malloc_zero(size_t n) { if (g_oom && nondet_bool()) return NULL; __CPROVER_assert(n == 4 || n == 16 || n == sizeof(struct hostent), "an address or the host entry"); void *p = calloc(1, sizeof(struct hostent)); /* fixed size: a symbolic allocation size is slow */ __CPROVER_assume(p != NULL); return p; }
void *ares_realloc_zero(void *ptr, size_t orig, size_t nw) { __CPROVER_assert(ptr == NULL && orig == 0, "fresh host entry: nothing to grow from"); if (g_oom && nondet_bool()) return NULL; __CPROVER_assert(nw % sizeof(char *) == 0 && nw <= 5 * sizeof(char *), "pointer array sized from the counts"); void *p = calloc(5, sizeof(char *)); __CPROVER_assume(p != NULL); return p; }
char *ares_strdup(const char *s) { if (s == NULL || (g_oom && nondet_bool())) return NULL; return &nm_dup[s - nm_tok]; }
void ares_free(void *p) { }
void ares_free_hostent(struct hostent *h) { if (h) g_he_freed++; }
void h_ai2hostent(void)
{
  static struct ares_addrinfo ai; static struct ares_addrinfo_cname cn[2]; mk_nodes(); ai.nodes = g_nn ? &g_node[0] : NULL; ai.name = &nm_tok[0]; g_oom = nondet_bool(); g_he_freed = 0;
  size_t nc = nondet_size() % 3; for (int i = 0; i < 2; i++) { cn[i].name = &nm_tok[1]; cn[i].alias = nondet_bool() ? &nm_tok[2 + i] : NULL; cn[i].next = (size_t)(i + 1) < nc ? &cn[i + 1] : NULL; } ai.cnames = nc ? &cn[0] : NULL;
  int family = nondet_bool() ? AF_UNSPEC : (nondet_bool() ? AF_INET : AF_INET6); struct hostent *he = NULL;
  ares_status_t rv = ares_addrinfo2hostent(&ai, family, &he);
  int fam = family != AF_UNSPEC ? family : (g_nn ? g_node[0].ai_family : AF_UNSPEC);
  if (fam == AF_UNSPEC) { __CPROVER_assert(rv == ARES_EBADQUERY && he == NULL, "C13: no family can be chosen for an empty result"); return; }
  size_t want = 0, nal = 0; for (size_t i = 0; i < NMAX; i++) if (i < g_nn && g_node[i].ai_family == fam) want++; for (size_t i = 0; i < 2; i++) if (i < nc && cn[i].alias != NULL) nal++;
  if (rv != ARES_SUCCESS) {
    __CPROVER_assert(he == NULL, "C13/C14: nothing is handed out on failure");
    if (rv == ARES_ENODATA) __CPROVER_assert(want == 0 && nc == 0 && g_he_freed == 1, "C13: no data only when there is neither an address of the family nor an alias record");
    else __CPROVER_assert(rv == ARES_ENOMEM && g_oom && g_he_freed <= 1, "C14: otherwise only out of memory, the partial entry released once");
    return;
  }
  __CPROVER_assert(he != NULL && g_he_freed == 0 && he->h_addrtype == fam && he->h_length == (fam == AF_INET ? 4 : 16), "C13: one family per host entry: the requested one, else that of the first address");
  __CPROVER_assert(he->h_name == (nc ? &nm_dup[1] : &nm_dup[0]), "C13: named after the canonical name when aliases were followed, else after the name asked for");
  size_t k = 0;
  for (size_t i = 0; i < NMAX; i++) if (i < g_nn && g_node[i].ai_family == fam) {
    __CPROVER_assert(he->h_addr_list[k] != NULL, "C13: every address of the family is returned");
    const unsigned char *src = fam == AF_INET ? (const unsigned char *)&g_sa4[i].sin_addr : (const unsigned char *)&g_sa6[i].sin6_addr;
    for (size_t j = 0; j < 16; j++) if (j < (size_t)he->h_length) __CPROVER_assert(((unsigned char *)he->h_addr_list[k])[j] == src[j], "C13: addresses are returned unchanged, in list order");
    k++;
  }
  __CPROVER_assert(k == want && he->h_addr_list[k] == NULL, "C13: no address invented, the list ends after the last one");
  size_t a = 0; for (size_t i = 0; i < 2; i++) if (i < nc && cn[i].alias != NULL) { __CPROVER_assert(he->h_aliases[a] == &nm_dup[2 + i], "C13/C18: the aliases followed are listed in order"); a++; }
  __CPROVER_assert(he->h_aliases[a] == NULL, "C13/C18: the alias list ends after the last alias");
}
#endif
#elif defined(T_SORT)
/* ---------------- sorting relinks every node exactly once --------------------------------------------------------- */
/* ASSUMED: qsort() permutes the array (any permutation: the comparator's order is not the point here); find_src_addr() stand-in reports reachable / unreachable / error */
static unsigned g_perm;
void *ares_malloc(size_t n) { if (nondet_bool()) return NULL; void *p = malloc(n); __CPROVER_assume(p != NULL); return p; }
void ares_free(void *p) { free(p); }
void qsort(void *base, size_t n, size_t sz, int (*cmp)(const void *, const void *))
{
  struct addrinfo_sort_elem *e = base, t;
  if (n >= 2 && (g_perm & 1)) { t = e[0]; e[0] = e[1]; e[1] = t; }
  if (n >= 3 && (g_perm & 2)) { t = e[1]; e[1] = e[2]; e[2] = t; }
  if (n >= 2 && (g_perm & 4)) { t = e[0]; e[0] = e[1]; e[1] = t; }
}
void h_sort_relink(void)
{
  static ares_channel_t ch; static struct ares_addrinfo_node sentinel; mk_nodes(); sentinel.ai_next = g_nn ? &g_node[0] : NULL; g_perm = nondet_uint() & 7;
  extern int g_src_mode; g_src_mode = (int)(nondet_uint() % 3);
  ares_status_t rv = ares_sortaddrinfo(&ch, &sentinel);
  if (g_nn == 0) { __CPROVER_assert(rv == ARES_ENODATA, "C13: nothing to sort"); return; }
  /* whatever the outcome, the caller's list still holds exactly the original nodes */
  int seen[NMAX] = {0, 0, 0}; size_t cnt = 0; struct ares_addrinfo_node *c = sentinel.ai_next;
  for (size_t i = 0; i < NMAX + 1; i++) if (c != NULL) { int k = c->ai_flags; __CPROVER_assert(k >= 0 && (size_t)k < g_nn && c == &g_node[k], "C13: only original nodes are linked"); seen[k]++; cnt++; c = c->ai_next; }
  __CPROVER_assert(c == NULL && cnt == g_nn, "C13: sorting neither drops nor duplicates an address (the list ends, with as many nodes as before)");
  for (size_t k = 0; k < NMAX; k++) if (k < g_nn) __CPROVER_assert(seen[k] == 1, "C13: every address is reachable from the head exactly once after sorting");
}

#else
/* ---------------- answers -> addresses ---------------------------------------------------------------------------------- */
/* ASSUMED: ghost answer section behind the record getters; node/cname append helpers are observers that may fail for lack of memory */
#define AMAX 3
static size_t g_an; static ares_dns_class_t g_cls[AMAX]; static ares_dns_rec_type_t g_typ[AMAX]; static unsigned int g_ttl[AMAX]; static char g_rr[AMAX]; static char rec_tok; static char qname[] = "q", cn_name[] = "c", rr_name[] = "o";
static int g_nodes; static int g_nfam[AMAX]; static unsigned short g_nport[AMAX]; static unsigned int g_nttl[AMAX]; static const void *g_naddr[AMAX]; static int g_cnames, g_cat_nodes, g_cat_cnames, g_freed_nodes; static _Bool g_oom; static char a4_tok[AMAX], a6_tok[AMAX]; static struct ares_addrinfo_node node_tok; static struct ares_addrinfo_cname g_cn[AMAX];
ares_status_t ares_dns_record_query_get(const ares_dns_record_t *r, size_t i, const char **name, ares_dns_rec_type_t *t, ares_dns_class_t *c) { *name = qname; return ARES_SUCCESS; }
size_t ares_dns_record_rr_cnt(const ares_dns_record_t *r, ares_dns_section_t s) { return g_an; }
const ares_dns_rr_t *ares_dns_record_rr_get_const(const ares_dns_record_t *r, ares_dns_section_t s, size_t i) { __CPROVER_assert(s == ARES_SECTION_ANSWER && i < g_an, "C13: only records of the answer section are used"); return (const ares_dns_rr_t *)&g_rr[i]; }
#define RI(rr) ((size_t)((const char *)(rr) - g_rr))
ares_dns_class_t ares_dns_rr_get_class(const ares_dns_rr_t *rr) { return g_cls[RI(rr)]; }
ares_dns_rec_type_t ares_dns_rr_get_type(const ares_dns_rr_t *rr) { return g_typ[RI(rr)]; }
unsigned int ares_dns_rr_get_ttl(const ares_dns_rr_t *rr) { return g_ttl[RI(rr)]; }
const char *ares_dns_rr_get_name(const ares_dns_rr_t *rr) { return rr_name; }
const char *ares_dns_rr_get_str(const ares_dns_rr_t *rr, ares_dns_rr_key_t k) { return cn_name; }
const struct in_addr *ares_dns_rr_get_addr(const ares_dns_rr_t *rr, ares_dns_rr_key_t k) { return (const struct in_addr *)&a4_tok[RI(rr)]; }
const struct ares_in6_addr *ares_dns_rr_get_addr6(const ares_dns_rr_t *rr, ares_dns_rr_key_t k) { return (const struct ares_in6_addr *)&a6_tok[RI(rr)]; }
ares_status_t ares_append_ai_node(int aftype, unsigned short port, unsigned int ttl, const void *adata, struct ares_addrinfo_node **nodes) { if (g_oom && nondet_bool()) return ARES_ENOMEM; if (g_nodes < AMAX) { g_nfam[g_nodes] = aftype; g_nport[g_nodes] = port; g_nttl[g_nodes] = ttl; g_naddr[g_nodes] = adata; } g_nodes++; *nodes = &node_tok; return ARES_SUCCESS; }
struct ares_addrinfo_cname *ares_append_addrinfo_cname(struct ares_addrinfo_cname **head) { if (g_oom && nondet_bool()) return NULL; *head = &g_cn[0]; return &g_cn[g_cnames < AMAX ? g_cnames++ : AMAX - 1]; }
char *ares_strdup(const char *s) { static char t; return (g_oom && nondet_bool()) ? NULL : &t; }
void ares_free(void *p) {}
ares_bool_t ares_strcaseeq(const char *a, const char *b) { return nondet_bool() ? ARES_TRUE : ARES_FALSE; }
void ares_addrinfo_cat_nodes(struct ares_addrinfo_node **head, struct ares_addrinfo_node *tail) { g_cat_nodes++; }
void ares_addrinfo_cat_cnames(struct ares_addrinfo_cname **head, struct ares_addrinfo_cname *tail) { g_cat_cnames++; }
void ares_freeaddrinfo_cnames(struct ares_addrinfo_cname *c) {}
void ares_freeaddrinfo_nodes(struct ares_addrinfo_node *n) { if (n) g_freed_nodes++; }
void h_parse_into_addrinfo(void)
{
  static struct ares_addrinfo ai; g_an = nondet_size() % (AMAX + 1); g_oom = nondet_bool(); unsigned short port = nondet_u16(); ares_bool_t cname_nodata = nondet_bool() ? ARES_TRUE : ARES_FALSE;
  for (int i = 0; i < AMAX; i++) { g_cls[i] = (ares_dns_class_t)(nondet_uint() % 5); unsigned t = nondet_uint() % 4; g_typ[i] = t == 0 ? ARES_REC_TYPE_A : (t == 1 ? ARES_REC_TYPE_AAAA : (t == 2 ? ARES_REC_TYPE_CNAME : ARES_REC_TYPE_TXT)); g_ttl[i] = nondet_uint(); }
  g_nodes = g_cnames = g_cat_nodes = g_cat_cnames = g_freed_nodes = 0;
  ares_status_t rv = ares_parse_into_addrinfo((const ares_dns_record_t *)&rec_tok, cname_nodata, port, &ai);
  if (rv != ARES_SUCCESS) { __CPROVER_assert(g_cat_nodes == 0 && g_cat_cnames == 0, "C13/C14: on error nothing is added to the caller's result"); __CPROVER_assert(g_nodes == 0 || g_freed_nodes == 1, "C14: the temporary node list is released on error"); return; }
  int k = 0;
  for (size_t i = 0; i < AMAX; i++) if (i < g_an && g_cls[i] == ARES_CLASS_IN && (g_typ[i] == ARES_REC_TYPE_A || g_typ[i] == ARES_REC_TYPE_AAAA)) {
    __CPROVER_assert(k < g_nodes && g_nfam[k] == (g_typ[i] == ARES_REC_TYPE_A ? AF_INET : AF_INET6) && g_nport[k] == port && g_nttl[k] == g_ttl[i] && g_naddr[k] == (g_typ[i] == ARES_REC_TYPE_A ? (const void *)&a4_tok[i] : (const void *)&a6_tok[i]), "C13: the k-th returned address is the k-th Internet-class A/AAAA answer, with the requested port and the record's TTL");
    k++;
  }
  __CPROVER_assert(g_nodes == k, "C13: no address is invented (foreign classes and other types are skipped) or dropped");
  __CPROVER_assert((g_cat_nodes == 1) == (k > 0), "C13: the addresses are handed to the caller exactly once");
}
#endif
