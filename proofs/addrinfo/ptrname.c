/* C13: reverse lookups query exactly the reverse-map name of the given address -- the real ares_dns_addr_to_ptr() of
 * src/lib/record/ares_dns_record.c.  The loop runs 4 or 16 times (a constant of the code), so unwinding is complete.
 * The buffer primitives (proved in the buf cluster) are replaced by recorders of what is appended, in order. */
#include "nd.h"
#include <stdlib.h>
#include <string.h>
#include "src/lib/record/ares_dns_record.c"
#define EMAX 80
/* ASSUMED: ares_buf_* append to the buffer in call order or fail (contracts proved in proofs/buf); here they log (kind, value) */
enum { E_DEC = 1, E_BYTE = 2, E_STR4 = 3, E_STR6 = 4 };
static char buf_tok, str_tok; static int g_kind[EMAX]; static unsigned g_valu[EMAX]; static size_t g_ne; static int g_created, g_destroyed, g_finished; static _Bool g_fail;
ares_buf_t *ares_buf_create(void) { if (g_fail && nondet_bool()) return NULL; g_created++; return (ares_buf_t *)&buf_tok; }
void ares_buf_destroy(ares_buf_t *b) { if (b) g_destroyed++; }
static ares_status_t ev(int k, unsigned v) { if (g_fail && nondet_bool()) return ARES_ENOMEM; __CPROVER_assert(g_ne < EMAX, "log capacity"); g_kind[g_ne] = k; g_valu[g_ne] = v; g_ne++; return ARES_SUCCESS; }
ares_status_t ares_buf_append_num_dec(ares_buf_t *b, size_t num, size_t len) { __CPROVER_assert(len == 0, "C13: decimal octet without padding"); return ev(E_DEC, (unsigned)num); }
ares_status_t ares_buf_append_byte(ares_buf_t *b, unsigned char c) { return ev(E_BYTE, c); }
ares_status_t ares_buf_append(ares_buf_t *b, const unsigned char *d, size_t n)
{
  if (n == 12 && memcmp(d, "in-addr.arpa", 12) == 0) return ev(E_STR4, 0);
  if (n == 8 && memcmp(d, "ip6.arpa", 8) == 0) return ev(E_STR6, 0);
  __CPROVER_assert(0, "C13: the reverse-map suffix is in-addr.arpa or ip6.arpa"); return ARES_EFORMERR;
}
char *ares_buf_finish_str(ares_buf_t *b, size_t *len) { g_finished++; return (g_fail && nondet_bool()) ? NULL : &str_tok; /* invalidates the buffer on every outcome (buf.finish_oom) */ }
static unsigned char hexch(unsigned n) { return (unsigned char)(n < 10 ? '0' + n : 'a' + (n - 10)); }
void h_addr_to_ptr(void)
{
  struct ares_addr a; a.family = nondet_bool() ? AF_INET : (nondet_bool() ? AF_INET6 : nondet_int()); unsigned char raw[16]; for (int i = 0; i < 16; i++) raw[i] = nondet_u8(); memcpy(&a.addr, raw, 16);
  g_ne = 0; g_created = g_destroyed = g_finished = 0; g_fail = nondet_bool();
  char *r = ares_dns_addr_to_ptr(&a);
  if (a.family != AF_INET && a.family != AF_INET6) { __CPROVER_assert(r == NULL && g_created == 0, "C13: no reverse name for other address families"); return; }
  if (r == NULL) { __CPROVER_assert(g_fail && g_destroyed + g_finished == g_created, "C13/C14: failure only on out of memory, buffer released exactly once (destroyed, or consumed by the failed finish)"); return; }
  __CPROVER_assert(g_created == 1 && g_finished == 1 && g_destroyed == 0, "C13: the finished string is the buffer's content, handed over once");
  if (a.family == AF_INET) {
    __CPROVER_assert(g_ne == 9, "C13: d.c.b.a.in-addr.arpa has four octets and the suffix");
    for (int k = 0; k < 4; k++) __CPROVER_assert(g_kind[2 * k] == E_DEC && g_valu[2 * k] == raw[3 - k] && g_kind[2 * k + 1] == E_BYTE && g_valu[2 * k + 1] == '.', "C13: IPv4 octets in reverse order, decimal, dot separated");
    __CPROVER_assert(g_kind[8] == E_STR4, "C13: IPv4 reverse names end in in-addr.arpa");
  } else {
    __CPROVER_assert(g_ne == 65, "C13: 32 nibbles and the suffix");
    for (int k = 0; k < 16; k++) {
      unsigned char byte = raw[15 - k];
      __CPROVER_assert(g_kind[4 * k] == E_BYTE && g_valu[4 * k] == hexch(byte & 0xF) && g_kind[4 * k + 1] == E_BYTE && g_valu[4 * k + 1] == '.', "C13: IPv6 nibbles in reverse order, low nibble first, lower-case hex");
      __CPROVER_assert(g_kind[4 * k + 2] == E_BYTE && g_valu[4 * k + 2] == hexch(byte >> 4) && g_kind[4 * k + 3] == E_BYTE && g_valu[4 * k + 3] == '.', "C13: IPv6 nibbles in reverse order, high nibble second, dot separated");
    }
    __CPROVER_assert(g_kind[64] == E_STR6, "C13: IPv6 reverse names end in ip6.arpa");
  }
}
