/* ASSUMED: find_src_addr() stand-in (the real one opens a UDP socket to learn the source address): reachable, unreachable or error */
#include "ares_private.h"
int g_src_mode;
int find_src_addr(ares_channel_t *channel, const struct sockaddr *addr, struct sockaddr *src_addr) { return g_src_mode == 0 ? 1 : (g_src_mode == 1 ? 0 : -1); }
