/* C01/C13: the real src/lib/ares_gethostbyname.c.
 *  h_ghbn_complete: ares_gethostbyname() + ares_gethostbyname_callback(): the application's callback fires exactly once, a result
 *    without addresses is ENODATA, the request state, the address list and the host entry are each released exactly once and
 *    only after the callback saw them (loop free with the sort passes stood in for: complete).
 *  h_ghbn_sort: sort_addresses()/sort6_addresses(): the sortlist pass permutes the addresses -- none invented, duplicated or dropped -- into
 *    ascending sortlist rank (bounded: <= 3 addresses). */
#include "nd.h"
#include <stdlib.h>
#include <string.h>
#include "src/lib/ares_gethostbyname.c"
#define GHOST_DEFINE
#include "ghbn_ghost.h"
static int g_cb, g_cb_status, g_ai_freed, g_he_freed, g_gai; static struct hostent *g_cb_host; static struct hostent g_he; static char *g_alist[2]; static char g_a0[16]; static void *g_parg; static _Bool g_oom, g_conv_ok;
static char ai_tok;
static void user_cb(void *arg, int status, int timeouts, struct hostent *host) { g_cb++; g_cb_status = status; g_cb_host = host; __CPROVER_assert(g_he_freed == 0 && g_ai_freed == 0, "C01/C13: what the callback is given is still valid"); }
void *ares_malloc(size_t n) { if (g_oom && nondet_bool()) return NULL; void *p = malloc(n); __CPROVER_assume(p != NULL); return p; }
void ares_free(void *p) { free(p); }
ares_status_t ares_addrinfo2hostent(const struct ares_addrinfo *ai, int family, struct hostent **host)
{
  __CPROVER_assert((const char *)ai == &ai_tok && family == AF_UNSPEC, "C13: the host entry is built from this request's result");
  if (!g_conv_ok) { *host = NULL; return nondet_bool() ? ARES_ENOMEM : ARES_ENODATA; }
  g_he.h_addrtype = nondet_bool() ? AF_INET : AF_INET6; g_he.h_addr_list = nondet_bool() ? NULL : g_alist; g_alist[0] = nondet_bool() ? NULL : g_a0; g_alist[1] = NULL; *host = &g_he; return ARES_SUCCESS;
}
void ares_freeaddrinfo(struct ares_addrinfo *ai) { if (ai) g_ai_freed++; }
void ares_free_hostent(struct hostent *h) { if (h) g_he_freed++; }
void ares_getaddrinfo(ares_channel_t *channel, const char *name, const char *service, const struct ares_addrinfo_hints *hints, ares_addrinfo_callback callback, void *arg)
{
  g_gai++; g_parg = arg;
  __CPROVER_assert(callback == ares_gethostbyname_callback && service == NULL && (hints->ai_flags & ARES_AI_CANONNAME), "C13: gethostbyname is getaddrinfo with the canonical name requested");
}
void h_ghbn_complete(void)
{
  static ares_channel_t ch; ch.nsort = nondet_size() % 3; int family = nondet_int(); g_cb = g_ai_freed = g_he_freed = g_gai = g_sorted4 = g_sorted6 = 0; g_oom = nondet_bool(); g_conv_ok = nondet_bool();
  ares_gethostbyname(&ch, "x", family, user_cb, NULL);
  if (g_gai == 0) { __CPROVER_assert(g_oom && g_cb == 1 && g_cb_status == ARES_ENOMEM, "C01/C14: the request fails at once only when out of memory, with one callback"); return; }
  __CPROVER_assert(g_cb == 0, "C01: no completion before the address lookup reports back");
  int st = (int)(nondet_uint() % 26); struct ares_addrinfo *res = (st == ARES_SUCCESS || nondet_bool()) ? (struct ares_addrinfo *)&ai_tok : NULL;
  ares_gethostbyname_callback(g_parg, st, (int)(nondet_uint() % 4), res);
  __CPROVER_assert(g_cb == 1, "C01: gethostbyname completes exactly once");
  __CPROVER_assert(g_ai_freed == (res != NULL), "C01/C14: the address list is released exactly once");
  __CPROVER_assert(g_he_freed == (g_cb_host != NULL), "C01/C14: the host entry is released exactly once, after the callback");
  if (g_cb_status == ARES_SUCCESS) __CPROVER_assert(g_cb_host == &g_he && g_he.h_addr_list != NULL && g_he.h_addr_list[0] != NULL, "C13: success means at least one address");
  if (st == ARES_SUCCESS && g_conv_ok && (g_he.h_addr_list == NULL || g_he.h_addr_list[0] == NULL)) __CPROVER_assert(g_cb_status == ARES_ENODATA, "C13: aliases without any address are reported as no data");
  __CPROVER_assert(g_sorted4 + g_sorted6 == ((g_cb_status == ARES_SUCCESS && ch.nsort > 0) ? 1 : 0), "C13: the sortlist pass runs once, for the entry's own family, only when a sortlist is configured");
}
#define NA 3
void h_ghbn_sort(void)
{
  static struct hostent he; static char *list[NA + 1]; static unsigned char a[NA][16]; unsigned char in[NA][16]; size_t n = nondet_size() % (NA + 1); _Bool v6 = nondet_bool(); size_t nsort = 1 + nondet_size() % 3; static struct apattern sl[3];
  for (int r = 0; r < 4; r++) g_rank[r] = nondet_size() % 4;
  for (size_t i = 0; i < NA; i++) { for (int j = 0; j < 16; j++) { a[i][j] = nondet_uchar(); in[i][j] = a[i][j]; } list[i] = i < n ? (char *)a[i] : NULL; } list[NA] = NULL; he.h_addr_list = list; he.h_addrtype = v6 ? AF_INET6 : AF_INET;
  if (v6) sort6_addresses(&he, sl, nsort); else sort_addresses(&he, sl, nsort);
  size_t w = v6 ? 16 : 4;
#define RANK(p) ((g_rank[(p)[0] & 3] < nsort) ? g_rank[(p)[0] & 3] : nsort)
  /* a permutation (every input address occurs as often after as before; ties may come in any order) in ascending rank */
  for (size_t i = 0; i < NA; i++) if (i < n) {
    size_t before = 0, after = 0;
    for (size_t k = 0; k < NA; k++) if (k < n) { _Bool eb = 1, ea = 1; for (size_t j = 0; j < 16; j++) if (j < w) { if (in[k][j] != in[i][j]) eb = 0; if (a[k][j] != in[i][j]) ea = 0; } before += eb; after += ea; }
    __CPROVER_assert(before == after, "C13: the sortlist pass neither invents, duplicates nor drops an address");
  }
  for (size_t k = 0; k + 1 < NA; k++) if (k + 1 < n) __CPROVER_assert(RANK(a[k]) <= RANK(a[k + 1]), "C13: addresses come out in ascending sortlist rank (unmatched last)");
  for (size_t i = 0; i <= NA; i++) __CPROVER_assert(list[i] == (i < n ? (char *)a[i] : NULL), "C13: the address slots themselves are untouched (contents move, pointers stay)");
}
