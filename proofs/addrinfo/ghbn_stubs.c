/* stand-ins linked in place of static callees of ares_gethostbyname.c */
#include "ares_private.h"
#include "ghbn_ghost.h"
#ifdef STUB_SORT
void sort_addresses(const struct hostent *host, const struct apattern *sortlist, size_t nsort) { g_sorted4++; }
void sort6_addresses(const struct hostent *host, const struct apattern *sortlist, size_t nsort) { g_sorted6++; }
#else
/* the sortlist rank of an address is a function of the address alone (here: of its first octet); nsort = no match */
size_t get_address_index(const struct in_addr *addr, const struct apattern *sortlist, size_t nsort) { size_t r = g_rank[((const unsigned char *)addr)[0] & 3]; return r < nsort ? r : nsort; }
size_t get6_address_index(const struct ares_in6_addr *addr, const struct apattern *sortlist, size_t nsort) { size_t r = g_rank[addr->_S6_un._S6_u8[0] & 3]; return r < nsort ? r : nsort; }
#endif
