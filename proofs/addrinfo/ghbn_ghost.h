#ifndef GHBN_GHOST_H
#define GHBN_GHOST_H
#ifdef GHOST_DEFINE
#define G
#else
#define G extern
#endif
G int g_sorted4, g_sorted6; G size_t g_rank[4];
#endif
