/* C08: "any server-list change empties the cache": the real ares_servers_update() (src/lib/ares_update_servers.c),
 * its static helpers replaced at link time by plain C stand-ins that only report whether they changed the list. */
#include "nd.h"
#include <stdlib.h>
#include <string.h>
#include "src/lib/ares_update_servers.c"
#include "flush_ghost.h"
#define NMAX 2
static ares_sconfig_t g_sc[NMAX];
ares_llist_node_t *ares_llist_node_first(ares_llist_t *l) { return g_nnew ? (ares_llist_node_t *)&g_sc[0] : NULL; }
ares_llist_node_t *ares_llist_node_next(ares_llist_node_t *n) { size_t i = (size_t)((ares_sconfig_t *)n - g_sc); return i + 1 < g_nnew ? (ares_llist_node_t *)&g_sc[i + 1] : NULL; }
void *ares_llist_node_val(ares_llist_node_t *n) { return n; }
void *ares_slist_node_val(ares_slist_node_t *n) { return &g_existing; }
void ares_slist_node_reinsert(ares_slist_node_t *n) {}
void ares_qcache_flush(ares_qcache_t *c) { g_flushes++; }
size_t ares_strlen(const char *s) { return nondet_size() % 16; }
size_t ares_strcpy(char *d, const char *s, size_t n) { return 0; }
void h_servers_update(void)
{
  static ares_channel_t ch; g_nnew = nondet_size(); __CPROVER_assume(g_nnew <= NMAX);
  g_flushes = g_created = 0; g_removed_stale = nondet_bool(); g_create_fail_at = nondet_size();
  for (int i = 0; i < NMAX; i++) { g_dup[i] = nondet_bool(); g_found[i] = nondet_bool(); }
  ch.flags = nondet_uint(); ares_bool_t user = nondet_bool() ? ARES_TRUE : ARES_FALSE;
  ares_status_t rv = ares_servers_update(&ch, (ares_llist_t *)&g_sc, user);
  if (rv == ARES_SUCCESS) {
    _Bool changed = g_created > 0 || g_removed_stale;
    __CPROVER_assert(!changed || g_flushes >= 1, "C08: any server-list change (server added or removed) empties the cache");
    __CPROVER_assert(!user || (ch.optmask & ARES_OPT_SERVERS), "C16: a server list supplied by the application is remembered as an explicit setting");
  }
}
