/* ASSUMED: stand-ins for the static helpers of ares_servers_update(): they report duplicates / existing servers / creation / stale removal nondeterministically */
#include "ares_private.h"
#include "flush_ghost.h"
static char tok;
ares_bool_t ares_server_isdup(const ares_channel_t *channel, ares_llist_node_t *s) { return g_dup[g_calls % 2] ? ARES_TRUE : ARES_FALSE; }
ares_slist_node_t *ares_server_find(const ares_channel_t *channel, const void *s) { return g_found[(g_calls++) % 2] ? (ares_slist_node_t *)&tok : NULL; }
ares_status_t ares_server_create(ares_channel_t *channel, const void *sconfig, size_t idx) { if ((size_t)g_created == g_create_fail_at) return ARES_ENOMEM; g_created++; return ARES_SUCCESS; }
ares_bool_t ares_servers_remove_stale(ares_channel_t *channel, ares_llist_t *servers) { return g_removed_stale ? ARES_TRUE : ARES_FALSE; }
void ares_servers_trim_single(ares_channel_t *channel) {}
