#ifndef FLUSH_GHOST_H
#define FLUSH_GHOST_H
#ifdef GHOST_DEFINE
#define G
#else
#define G extern
#endif
G size_t g_nnew, g_create_fail_at; G int g_flushes, g_created, g_calls; G _Bool g_removed_stale, g_dup[2], g_found[2]; G ares_server_t g_existing;
#endif
