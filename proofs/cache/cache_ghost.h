/* ghost state shared between cache.c and cache_stubs.c */
#ifndef CACHE_GHOST_H
#define CACHE_GHOST_H
typedef struct { char *key; ares_dns_record_t *dnsrec; time_t expire_ts; time_t insert_ts; } ghost_entry_t; /* layout of ares_qcache_entry_t */
#ifdef GHOST_DEFINE
#define G
#else
#define G extern
#endif
G unsigned int g_minttl, g_soa; G _Bool g_key_fail, g_tab_fail, g_list_fail, g_expire_before_lookup; G int g_live_allocs, g_expire_calls, g_lookup_calls;
G ghost_entry_t *g_tab_entry, *g_list_entry; G void *g_lookup; G const ares_dns_record_t *g_key_for;
#ifdef GHOST_DEFINE
static void cache_ghost_reset(void) { g_live_allocs = g_expire_calls = g_lookup_calls = 0; g_tab_entry = g_list_entry = NULL; g_key_for = NULL; g_expire_before_lookup = 0; }
#endif
#endif
