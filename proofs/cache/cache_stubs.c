/* plain C stand-ins linked in for the callees of ares_qcache_insert_int()/ares_qcache_fetch().
 * ASSUMED: lifetimes come from ares_qcache_calc_minttl/_soa_minimum (proved in cache.minttl), the key from ares_qcache_calc_key (cache.key), expiry from ares_qcache_expire (cache.expire); hash table and sorted list are ghost single-slot containers that may fail for lack of memory */
#include "ares_private.h"
#include "nd.h"
#include "cache_ghost.h"
unsigned int ares_qcache_calc_minttl(ares_dns_record_t *dnsrec) { return g_minttl; }
unsigned int ares_qcache_soa_minimum(ares_dns_record_t *dnsrec) { return g_soa; }
char *ares_qcache_calc_key(const ares_dns_record_t *dnsrec) { g_key_for = dnsrec; if (g_key_fail) return NULL; char *k = malloc(4); __CPROVER_assume(k != NULL); k[0] = 'k'; k[1] = 0; g_live_allocs++; return k; }
void ares_qcache_expire(ares_qcache_t *cache, const ares_timeval_t *now) { g_expire_calls++; if (g_lookup_calls == 0 && now != NULL) g_expire_before_lookup = 1; }
void *ares_malloc_zero(size_t n) { if (nondet_bool()) return NULL; void *p = calloc(1, n); __CPROVER_assume(p != NULL); g_live_allocs++; return p; }
void ares_free(void *p) { if (p != NULL) { g_live_allocs--; free(p); } }
ares_bool_t ares_htable_strvp_insert(ares_htable_strvp_t *h, const char *key, void *val) { if (g_tab_fail) return ARES_FALSE; g_tab_entry = val; return ARES_TRUE; }
ares_bool_t ares_htable_strvp_remove(ares_htable_strvp_t *h, const char *key) { g_tab_entry = NULL; return ARES_TRUE; }
void *ares_htable_strvp_get_direct(const ares_htable_strvp_t *h, const char *key) { g_lookup_calls++; return g_lookup; }
ares_slist_node_t *ares_slist_insert(ares_slist_t *l, void *val) { if (g_list_fail) return NULL; g_list_entry = val; return (ares_slist_node_t *)val; }
