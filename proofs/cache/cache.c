/* C08/C14: the real src/lib/ares_qcache.c.  Containers (string hash table, sorted expiry list), the DNS record and
 * the key buffer are ghost models behind plain C stand-ins, so a counterexample replays natively. */
#include "nd.h"
#include <stdlib.h>
#include <string.h>
#include "src/lib/ares_qcache.c"

/* ---------------- ghost record ------------------------------------------------------------------------- */
/* ASSUMED: ghost DNS record behind the public record getters (rcode, flags, opcode, questions, per-section RR type/ttl/SOA minimum) */
#define RMAX 3
static char rec_tok, req_tok; static ares_dns_rcode_t g_rcode; static unsigned short g_flags; static ares_dns_opcode_t g_opcode;
static size_t g_rrcnt[4]; static ares_dns_rec_type_t g_rrtype[4][RMAX]; static unsigned int g_rrttl[4][RMAX], g_soamin[4][RMAX];
static int g_rec_destroyed, g_ttl_dec_calls; static unsigned int g_ttl_dec;
ares_dns_rcode_t ares_dns_record_get_rcode(const ares_dns_record_t *r) { return g_rcode; }
unsigned short ares_dns_record_get_flags(const ares_dns_record_t *r) { return g_flags; }
ares_dns_opcode_t ares_dns_record_get_opcode(const ares_dns_record_t *r) { return g_opcode; }
size_t ares_dns_record_rr_cnt(const ares_dns_record_t *r, ares_dns_section_t s) { return (unsigned)s < 4 ? g_rrcnt[s] : 0; }
const ares_dns_rr_t *ares_dns_record_rr_get_const(const ares_dns_record_t *r, ares_dns_section_t s, size_t i) { return (const ares_dns_rr_t *)&g_rrtype[s][i]; }
ares_dns_rr_t *ares_dns_record_rr_get(ares_dns_record_t *r, ares_dns_section_t s, size_t i) { __CPROVER_assert((unsigned)s < 4 && i < g_rrcnt[s] && i < RMAX, "C02: RR index within the section"); return (ares_dns_rr_t *)&g_rrtype[s][i]; }
#define RRIDX(rr) ((size_t)((const ares_dns_rec_type_t *)(rr) - &g_rrtype[0][0]))
ares_dns_rec_type_t ares_dns_rr_get_type(const ares_dns_rr_t *rr) { return g_rrtype[RRIDX(rr) / RMAX][RRIDX(rr) % RMAX]; }
unsigned int ares_dns_rr_get_ttl(const ares_dns_rr_t *rr) { return g_rrttl[RRIDX(rr) / RMAX][RRIDX(rr) % RMAX]; }
unsigned int ares_dns_rr_get_u32(const ares_dns_rr_t *rr, ares_dns_rr_key_t key) { __CPROVER_assert(key == ARES_RR_SOA_MINIMUM, "C08: only SOA MINIMUM is read"); return g_soamin[RRIDX(rr) / RMAX][RRIDX(rr) % RMAX]; }
void ares_dns_record_destroy(ares_dns_record_t *r) { if (r) g_rec_destroyed++; }
void ares_dns_record_ttl_decrement(ares_dns_record_t *r, unsigned int d) { g_ttl_dec_calls++; g_ttl_dec = d; }
static void mk_record(void)
{
  g_rcode = (ares_dns_rcode_t)nondet_uint(); g_flags = nondet_u16(); g_opcode = (ares_dns_opcode_t)(nondet_uint() % 8);
  for (int s = 0; s < 4; s++) { g_rrcnt[s] = nondet_size(); __CPROVER_assume(g_rrcnt[s] <= RMAX); for (int i = 0; i < RMAX; i++) { g_rrtype[s][i] = (ares_dns_rec_type_t)nondet_u16(); g_rrttl[s][i] = nondet_uint(); g_soamin[s][i] = nondet_uint(); } }
}

#if defined(T_TTL)
/* ---------------- lifetime an answer's own TTLs allow --------------------------------------------------- */
void h_minttl(void)
{
  mk_record();
  unsigned int m = ares_qcache_calc_minttl((ares_dns_record_t *)&rec_tok);
  unsigned int want = 0xFFFFFFFF;
  for (int s = ARES_SECTION_ANSWER; s <= ARES_SECTION_ADDITIONAL; s++) for (size_t i = 0; i < RMAX; i++) if (i < g_rrcnt[s]) {
    ares_dns_rec_type_t t = g_rrtype[s][i];
    if (t != ARES_REC_TYPE_OPT && t != ARES_REC_TYPE_SOA && t != ARES_REC_TYPE_SIG && g_rrttl[s][i] < want) want = g_rrttl[s][i];
  }
  __CPROVER_assert(m == want, "C08: lifetime of a positive answer = smallest TTL over all its records (OPT/SOA/SIG carry no TTL)");
  unsigned int n = ares_qcache_soa_minimum((ares_dns_record_t *)&rec_tok);
  unsigned int wn = 0; _Bool found = 0;
  for (size_t i = 0; i < RMAX; i++) if (!found && i < g_rrcnt[ARES_SECTION_AUTHORITY] && g_rrtype[ARES_SECTION_AUTHORITY][i] == ARES_REC_TYPE_SOA) { found = 1; wn = g_rrttl[ARES_SECTION_AUTHORITY][i] < g_soamin[ARES_SECTION_AUTHORITY][i] ? g_rrttl[ARES_SECTION_AUTHORITY][i] : g_soamin[ARES_SECTION_AUTHORITY][i]; }
  __CPROVER_assert(n == wn, "C08: lifetime of a negative answer = min(SOA TTL, SOA MINIMUM) (RFC 2308), 0 without SOA");
}

#elif defined(T_EXPIRE)
/* ---------------- expiry / flush --------------------------------------------------------------------------- */
/* ASSUMED: the expiry index is sorted by expire_ts (ares_slist contract, bounded checks in proofs/slist); hash table removal by key */
#define EMAX 3
static ares_qcache_entry_t g_e[EMAX]; static _Bool g_in_list[EMAX], g_in_tab[EMAX]; static size_t g_ne; static char g_keys[EMAX][2];
ares_slist_node_t *ares_slist_node_first(const ares_slist_t *l) { for (size_t i = 0; i < EMAX; i++) if (i < g_ne && g_in_list[i]) return (ares_slist_node_t *)&g_e[i]; return NULL; }
void *ares_slist_node_val(ares_slist_node_t *n) { return n; }
void ares_slist_node_destroy(ares_slist_node_t *n) { size_t i = (size_t)((ares_qcache_entry_t *)n - g_e); __CPROVER_assert(i < g_ne && g_in_list[i], "C08: only live entries are destroyed"); g_in_list[i] = 0; }
ares_bool_t ares_htable_strvp_remove(ares_htable_strvp_t *h, const char *key) { for (size_t i = 0; i < EMAX; i++) if (key == g_keys[i]) { g_in_tab[i] = 0; return ARES_TRUE; } return ARES_FALSE; }
void h_expire(void)
{
  static ares_qcache_t c; ares_timeval_t now; _Bool flush = nondet_bool(); now.sec = nondet_i64(); now.usec = 0; __CPROVER_assume(now.sec >= 0 && now.sec < (1LL << 40));
  g_ne = nondet_size(); __CPROVER_assume(g_ne <= EMAX);
  for (size_t i = 0; i < EMAX; i++) { g_e[i].expire_ts = (time_t)nondet_i64(); __CPROVER_assume(g_e[i].expire_ts >= 0 && g_e[i].expire_ts < (1LL << 41)); g_e[i].key = g_keys[i]; g_in_list[i] = g_in_tab[i] = i < g_ne; if (i > 0 && i < g_ne) __CPROVER_assume(g_e[i - 1].expire_ts <= g_e[i].expire_ts); }
  if (flush) ares_qcache_flush(&c); else ares_qcache_expire(&c, &now);
  for (size_t i = 0; i < EMAX; i++) if (i < g_ne) {
    _Bool dead = flush || g_e[i].expire_ts <= now.sec;
    if (flush) __CPROVER_assert(!g_in_list[i] && !g_in_tab[i], "C08: a flush (server-list change, reinit) empties the cache");
    else __CPROVER_assert(g_in_list[i] == !dead && g_in_tab[i] == !dead, "C08: exactly the entries whose lifetime has passed are dropped, from both indexes");
  }
}

#elif defined(T_KEY)
/* ---------------- cache key: opcode | RD/CD | type | class | name (trailing dot stripped) -------------------- */
/* ASSUMED: the key buffer is a ghost event log behind ares_buf_create/append_str/append_byte/append/finish_str; *_tostr map each value to a distinct constant string */
#define EV 16
static int g_nev; static int g_kind[EV]; static const void *g_ptr[EV]; static size_t g_len[EV]; static unsigned char g_byte[EV]; static char buf_tok; static _Bool g_oom; static int g_finished, g_destroyed;
static char s_op[2], s_type[2], s_class[2]; static char g_qname[6]; static ares_dns_rec_type_t g_qtype; static ares_dns_class_t g_qclass; static size_t g_qcnt;
ares_buf_t *ares_buf_create(void) { return nondet_bool() ? NULL : (ares_buf_t *)&buf_tok; }
static ares_status_t ev(int k, const void *p, size_t l, unsigned char b) { if (g_oom && nondet_bool()) return ARES_ENOMEM; if (g_nev < EV) { g_kind[g_nev] = k; g_ptr[g_nev] = p; g_len[g_nev] = l; g_byte[g_nev] = b; } g_nev++; return ARES_SUCCESS; }
ares_status_t ares_buf_append_str(ares_buf_t *b, const char *s) { return ev(1, s, 0, 0); }
ares_status_t ares_buf_append_byte(ares_buf_t *b, unsigned char c) { return ev(2, NULL, 0, c); }
ares_status_t ares_buf_append(ares_buf_t *b, const unsigned char *d, size_t l) { return ev(3, d, l, 0); }
char *ares_buf_finish_str(ares_buf_t *b, size_t *l) { g_finished++; return nondet_bool() ? NULL : (char *)&buf_tok; }
void ares_buf_destroy(ares_buf_t *b) { if (b) g_destroyed++; }
const char *ares_dns_opcode_tostr(ares_dns_opcode_t o) { return s_op; }
const char *ares_dns_rec_type_tostr(ares_dns_rec_type_t t) { __CPROVER_assert(t == g_qtype, "C08: key uses the question type"); return s_type; }
const char *ares_dns_class_tostr(ares_dns_class_t c) { __CPROVER_assert(c == g_qclass, "C08: key uses the question class"); return s_class; }
size_t ares_dns_record_query_cnt(const ares_dns_record_t *r) { return g_qcnt; }
ares_status_t ares_dns_record_query_get(const ares_dns_record_t *r, size_t i, const char **name, ares_dns_rec_type_t *t, ares_dns_class_t *c) { *name = g_qname; *t = g_qtype; *c = g_qclass; return ARES_SUCCESS; }
size_t ares_strlen(const char *s) { size_t n = 0; for (int i = 0; i < 6; i++) { if (s[i] == 0) break; n++; } return n; }
void h_key(void)
{
  mk_record(); g_qcnt = nondet_bool() ? 1 : 0; g_qtype = (ares_dns_rec_type_t)nondet_u16(); g_qclass = (ares_dns_class_t)nondet_u16(); g_oom = nondet_bool(); g_nev = 0;
  for (int i = 0; i < 5; i++) g_qname[i] = (char)nondet_uchar(); g_qname[5] = 0;
  char *k = ares_qcache_calc_key((ares_dns_record_t *)&req_tok);
  if (k == NULL) { __CPROVER_assert(g_finished + g_destroyed <= 1, "C14: the key buffer is released exactly once on failure"); return; }
  int e = 0; size_t nl = ares_strlen(g_qname); if (nl && g_qname[nl - 1] == '.') nl--;
  __CPROVER_assert(g_kind[e] == 1 && g_ptr[e] == s_op, "C08: key starts with the opcode"); e++;
  __CPROVER_assert(g_kind[e] == 2 && g_byte[e] == '|', "C08: field separator"); e++;
  if (g_flags & ARES_FLAG_RD) { __CPROVER_assert(g_kind[e] == 1 && ((const char *)g_ptr[e])[0] == 'r', "C08: the recursion-desired flag is part of the key"); e++; }
  if (g_flags & ARES_FLAG_CD) { __CPROVER_assert(g_kind[e] == 1 && ((const char *)g_ptr[e])[0] == 'c', "C08: the checking-disabled flag is part of the key"); e++; }
  if (g_qcnt) {
    __CPROVER_assert(g_kind[e] == 2 && g_byte[e] == '|', "C08: field separator"); e++;
    __CPROVER_assert(g_kind[e] == 1 && g_ptr[e] == s_type, "C08: the question type is part of the key"); e++;
    __CPROVER_assert(g_kind[e] == 2 && g_byte[e] == '|', "C08: field separator"); e++;
    __CPROVER_assert(g_kind[e] == 1 && g_ptr[e] == s_class, "C08: the question class is part of the key"); e++;
    __CPROVER_assert(g_kind[e] == 2 && g_byte[e] == '|', "C08: field separator"); e++;
    if (nl > 0) { __CPROVER_assert(g_kind[e] == 3 && g_ptr[e] == g_qname && g_len[e] == nl, "C08: the question name, without a trailing dot, ends the key"); e++; }
  }
  __CPROVER_assert(g_nev == e, "C08: nothing else (no other flag, no answer data) enters the key");
}

#else
/* ---------------- insert / fetch ------------------------------------------------------------------------------ */
#include "cache_ghost.h"
void h_insert(void)
{
  static ares_qcache_t c; ares_timeval_t now; mk_record(); cache_ghost_reset();
  c.max_ttl = nondet_uint(); now.sec = nondet_i64(); now.usec = nondet_uint(); __CPROVER_assume(now.sec >= 0 && now.sec < (1LL << 40));
  g_minttl = nondet_uint(); g_soa = nondet_uint(); g_key_fail = nondet_bool(); g_tab_fail = nondet_bool(); g_list_fail = nondet_bool();
  ares_status_t rv = ares_qcache_insert_int(&c, (ares_dns_record_t *)&rec_tok, (ares_dns_record_t *)&req_tok, &now);
  unsigned int src = g_rcode == ARES_RCODE_NXDOMAIN ? g_soa : g_minttl; unsigned int ttl = src > c.max_ttl ? c.max_ttl : src;
  if (rv == ARES_SUCCESS) {
    __CPROVER_assert(g_rcode == ARES_RCODE_NOERROR || g_rcode == ARES_RCODE_NXDOMAIN, "C08: only NOERROR / NXDOMAIN answers are stored");
    __CPROVER_assert(!(g_flags & ARES_FLAG_TC), "C08: truncated responses are never stored");
    __CPROVER_assert(c.max_ttl != 0 && ttl > 0, "C08: nothing is stored when the maximum is zero or the answer is already expired");
    __CPROVER_assert(g_tab_entry != NULL && g_list_entry == g_tab_entry && g_tab_entry->dnsrec == (ares_dns_record_t *)&rec_tok, "C08: the accepted response is registered in both indexes");
    __CPROVER_assert(g_tab_entry->expire_ts == (time_t)now.sec + (time_t)ttl && g_tab_entry->insert_ts == (time_t)now.sec, "C08: replayed no later than min(configured maximum, lifetime its own TTLs allow)");
    __CPROVER_assert(g_key_for == (ares_dns_record_t *)&req_tok, "C08: the key is built from the request (opcode, RD/CD, type, class, name)");
  } else {
    __CPROVER_assert(g_tab_entry == NULL && g_list_entry == NULL, "C14/C08: a failed insert leaves nothing registered");
    __CPROVER_assert(g_rec_destroyed == 0, "C14/C01: a failed insert does not release the caller's response record");
    __CPROVER_assert(g_live_allocs == 0, "C14: a failed insert leaks nothing (entry and key released)");
  }
  __CPROVER_assert(rv != ARES_SUCCESS || g_live_allocs == 2, "C08: entry and key are owned by the cache");
}
void h_fetch(void)
{
  static ares_channel_t ch; static ares_qcache_t c; ares_timeval_t now; const ares_dns_record_t *out = NULL; cache_ghost_reset();
  static ares_qcache_entry_t e; _Bool enabled = nondet_bool(), hit = nondet_bool(); ch.qcache = enabled ? &c : NULL;
  now.sec = nondet_i64(); now.usec = nondet_uint(); __CPROVER_assume(now.sec >= 0 && now.sec < (1LL << 40));
  e.dnsrec = (ares_dns_record_t *)&rec_tok; e.insert_ts = (time_t)nondet_i64(); e.expire_ts = (time_t)nondet_i64();
  /* what the expiry step (proved in cache.expire) leaves behind: entries still alive at `now`, inserted in the past */
  __CPROVER_assume(e.insert_ts >= 0 && e.insert_ts <= now.sec && e.expire_ts > now.sec);
  g_key_fail = nondet_bool(); g_lookup = hit ? &e : NULL;
  ares_status_t rv = ares_qcache_fetch(&ch, &now, (ares_dns_record_t *)&req_tok, &out);
  if (!enabled) { __CPROVER_assert(rv == ARES_ENOTFOUND && g_expire_calls == 0, "C08: nothing is replayed when the cache is disabled (maximum zero)"); return; }
  __CPROVER_assert(g_expire_calls == 1 && g_expire_before_lookup, "C08: expired entries are dropped BEFORE the lookup, so only fresh answers can be replayed");
  if (rv == ARES_SUCCESS) {
    __CPROVER_assert(hit && out == e.dnsrec, "C08: a hit returns the stored response for this key");
    __CPROVER_assert(g_ttl_dec_calls == 1 && g_ttl_dec == (unsigned int)(now.sec - e.insert_ts), "C08: TTLs are reduced by the time spent cached");
  } else __CPROVER_assert(out == NULL && g_ttl_dec_calls == 0, "C08: no record on a miss");
  __CPROVER_assert(g_live_allocs == 0, "C14: the temporary key is released");
}
#endif
