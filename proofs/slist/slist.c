/* C19/C09/C07: the real src/lib/dsa/ares_slist.c (ordered skip list).  Driving the real list through symbolic API
 * sequences is out of CBMC's reach (DESIGN §3 P13/P18), so the harness CONSTRUCTS an arbitrary well-formed list of <= 3 nodes
 * with <= 2 levels (keys sorted, every level a sub-chain of the level below, head/tail/cnt consistent) and then runs one real
 * operation on it.  Every shape (element count x level assignment x position) is enumerated; the keys are symbolic. */
#include "alloc.h"
/* the only memset calls in this file zero a node's next[]/prev[] pointer arrays: exact pointer-wise model, preconditions asserted */
static void *slist_memset(void *dst, int c, size_t n)
{
  __CPROVER_assert(c == 0 && n % sizeof(void *) == 0, "memset model: zeroing whole pointers");
  for (size_t i = 0; i < n / sizeof(void *); i++) ((void **)dst)[i] = NULL;
  return dst;
}
#define memset slist_memset
#include "src/lib/dsa/ares_slist.c"
#define NMAX 3
#define LV 2
static int g_key[NMAX + 1]; /* every node and every link array is its own object: a pointer into an array of 48-byte structs would cost a bit-vector division per dereference */
static ares_slist_node_t g_nd0, g_nd1, g_nd2, g_nd3; static ares_slist_node_t *g_n0[LV], *g_n1[LV], *g_n2[LV], *g_n3[LV], *g_p0[LV], *g_p1[LV], *g_p2[LV], *g_p3[LV];
static ares_slist_node_t *const g_np[4] = { &g_nd0, &g_nd1, &g_nd2, &g_nd3 }; static ares_slist_node_t **const g_next[4] = { g_n0, g_n1, g_n2, g_n3 }, **const g_prev[4] = { g_p0, g_p1, g_p2, g_p3 };
#define g_node(i) (*g_np[i])
static size_t idx_of(const ares_slist_node_t *x) { return x == &g_nd0 ? 0 : x == &g_nd1 ? 1 : x == &g_nd2 ? 2 : x == &g_nd3 ? 3 : 4; }
 static ares_slist_node_t *g_head[LV]; static ares_slist_t g_l; static size_t g_n;
static int cmp_int(const void *a, const void *b) { int x = *(const int *)a, y = *(const int *)b; return x < y ? -1 : (x > y ? 1 : 0); }
/* gn and mask are CONCRETE at every call (the harnesses enumerate every shape in plain C loops), so the pointer structure is
 * constant-propagated by symbolic execution; only the keys stay symbolic. */
static void mk_list(size_t gn, unsigned mask)
{
  g_n = gn; g_l.cmp = cmp_int; g_l.destruct = NULL; g_l.levels = LV; g_l.head = g_head; g_l.cnt = g_n; g_l.tail = NULL; g_head[0] = g_head[1] = NULL;
  ares_slist_node_t *last[LV] = { NULL, NULL };
  for (size_t i = 0; i <= NMAX; i++) { ares_slist_node_t *x = &g_node(i); x->data = &g_key[i]; x->parent = &g_l; x->levels = 1 + ((mask >> i) & 1u); x->next = g_next[i]; x->prev = g_prev[i]; for (size_t lv = 0; lv < LV; lv++) { x->next[lv] = NULL; x->prev[lv] = NULL; } }
  for (size_t i = 0; i < gn; i++) {
    g_key[i] = nondet_int() % 8; if (i > 0) __CPROVER_assume(g_key[i - 1] <= g_key[i]);
    ares_slist_node_t *x = &g_node(i);
    for (size_t lv = 0; lv < x->levels; lv++) { x->prev[lv] = last[lv]; if (last[lv]) last[lv]->next[lv] = x; else g_head[lv] = x; last[lv] = x; }
    g_l.tail = x;
  }
}
/* the list is well formed and its level-0 chain is exactly the sorted multiset given by present[] */
static void check_list(const _Bool *present, size_t expect)
{
  size_t cnt = 0; ares_slist_node_t *x = g_head[0], *p = NULL; int seen[NMAX + 1]; for (size_t k = 0; k <= NMAX; k++) seen[k] = 0;
  for (size_t i = 0; i < NMAX + 2; i++) if (x != NULL) {
    size_t k = idx_of(x); __CPROVER_assert(k <= NMAX && present[k], "C19: only live elements are linked");
    __CPROVER_assert(x->prev[0] == p, "C19: level-0 back links are consistent");
    if (p != NULL) __CPROVER_assert(cmp_int(p->data, x->data) <= 0, "C19: the ordered list stays sorted");
    seen[k]++; cnt++; p = x; x = x->next[0];
  }
  __CPROVER_assert(x == NULL && cnt == expect && g_l.tail == p, "C19: the ordered list loses or duplicates nothing; tail is the last element");
  for (size_t k = 0; k <= NMAX; k++) __CPROVER_assert(seen[k] == (present[k] ? 1 : 0), "C19: every live element appears exactly once");
  /* level 1 is a sorted sub-chain of the elements that have two levels */
  x = g_head[1]; p = NULL; size_t c1 = 0, want1 = 0; for (size_t k = 0; k <= NMAX; k++) if (present[k] && g_node(k).levels == 2) want1++;
  for (size_t i = 0; i < NMAX + 2; i++) if (x != NULL) { __CPROVER_assert(x->levels == 2 && x->prev[1] == p && (p == NULL || cmp_int(p->data, x->data) <= 0), "C19: the express lane is a sorted sub-chain"); c1++; p = x; x = x->next[1]; }
  __CPROVER_assert(x == NULL && c1 == want1, "C19: the express lane holds exactly the two-level elements");
}
/* after a removal the expected shape is fully determined: the live elements in their original order, on both levels */
static void check_exact(const _Bool *present)
{
  for (size_t lv = 0; lv < LV; lv++) {
    ares_slist_node_t *p = NULL;
    for (size_t k = 0; k < NMAX; k++) if (present[k] && g_node(k).levels > lv) {
      __CPROVER_assert(g_node(k).prev[lv] == p, "C19: removal keeps the back links of the remaining elements exact");
      __CPROVER_assert(p == NULL ? g_head[lv] == &g_node(k) : p->next[lv] == &g_node(k), "C19: removal keeps every remaining element linked, in order");
      p = &g_node(k);
    }
    __CPROVER_assert(p == NULL ? g_head[lv] == NULL : p->next[lv] == NULL, "C19: the chain ends at the last remaining element");
    if (lv == 0) __CPROVER_assert(g_l.tail == p, "C19: tail is the last remaining element");
  }
}
/* shapes: gn live elements, bit i of mask = element i has two levels; bit NMAX = the levels of the element being pushed */
void hb_push(void)
{
  for (size_t gn = 0; gn <= NMAX; gn++) for (unsigned m = 0; m < (1u << gn); m++) for (unsigned nl = 0; nl < 2; nl++) {
    mk_list(gn, m | (nl << NMAX)); ares_slist_node_t *x = &g_node(NMAX); g_key[NMAX] = nondet_int() % 8;
    ares_slist_node_push(&g_l, x);
    _Bool pres[NMAX + 1]; for (size_t k = 0; k < NMAX; k++) pres[k] = k < gn; pres[NMAX] = 1;
    check_list(pres, gn + 1);
  }
}
void hb_pop(void)
{
  for (size_t gn = 1; gn <= NMAX; gn++) for (unsigned m = 0; m < (1u << gn); m++) for (size_t k = 0; k < gn; k++) {
    mk_list(gn, m); _Bool pres[NMAX + 1]; for (size_t i = 0; i <= NMAX; i++) pres[i] = i < gn;
    ares_slist_node_pop(&g_node(k)); pres[k] = 0; check_exact(pres);
    for (size_t lv = 0; lv < LV; lv++) __CPROVER_assert(lv >= g_node(k).levels || (g_node(k).next[lv] == NULL && g_node(k).prev[lv] == NULL), "C19: the removed element keeps no links into the list");
  }
}
void hb_reinsert(void)
{
  for (size_t gn = 1; gn <= NMAX; gn++) for (unsigned m = 0; m < (1u << gn); m++) for (size_t k = 0; k < gn; k++) {
    mk_list(gn, m); _Bool pres[NMAX + 1]; for (size_t i = 0; i <= NMAX; i++) pres[i] = i < gn;
    g_key[k] = nondet_int() % 8; ares_slist_node_reinsert(&g_node(k)); check_list(pres, gn);   /* the key changed (a server's failure count), reinsert restores the order */
  }
}
void hb_find(void)
{
  for (size_t gn = 0; gn <= NMAX; gn++) for (unsigned m = 0; m < (1u << gn); m++) {
    mk_list(gn, m); int key = nondet_int() % 8; ares_slist_node_t *f = ares_slist_node_find(&g_l, &key);
    size_t first = NMAX + 1; for (size_t i = NMAX; i-- > 0;) if (i < gn && g_key[i] == key) first = i;
    __CPROVER_assert(first > NMAX ? f == NULL : f == &g_node(first), "C19: find returns the first element equal to the key, or nothing");
    __CPROVER_assert(ares_slist_node_first(&g_l) == (gn ? &g_node(0) : NULL), "C07/C09: the first element is the smallest (earliest deadline / best server)");
  }
}
