/* C07/C09/C08: the three orders the library keeps its skip lists in (complete: loop free, all field values symbolic):
 *  - pending queries by deadline, earliest first (ares_query_timeout_cmp_cb, src/lib/ares_init.c): ares_timeout() and
 *    process_timeouts() look at the FIRST element only;
 *  - servers by consecutive failures, then configured position (server_sort_cb, src/lib/ares_init.c): ares_send_query() takes the
 *    first / the leading group;
 *  - cache entries by expiry time, earliest first (ares_qcache_entry_sort_cb, src/lib/ares_qcache.c): ares_qcache_expire() stops at
 *    the first entry that has not expired.
 * Together with the skip-list obligations (slist.*: the list is sorted by its comparator) this gives "first element = minimum". */
#include "nd.h"
#include <stdlib.h>
#include <string.h>
#ifdef T_QCACHE
#include "src/lib/ares_qcache.c"
#else
#include "src/lib/ares_init.c"
#endif
static int sgn(int x) { return x < 0 ? -1 : (x > 0 ? 1 : 0); }
#ifdef T_QCACHE
void h_cmp(void)
{
  static ares_qcache_entry_t a, b; a.expire_ts = nondet_i64(); b.expire_ts = nondet_i64();
  int r = ares_qcache_entry_sort_cb(&a, &b);
  __CPROVER_assert(sgn(r) == (a.expire_ts < b.expire_ts ? -1 : (a.expire_ts > b.expire_ts ? 1 : 0)), "C08: cache entries are ordered by expiry time, earliest first (expiry stops at the first entry still alive, so a later entry must never hide an earlier one)");
}
#else
void h_cmp(void)
{
  static ares_query_t q1, q2; q1.timeout.sec = nondet_i64(); q2.timeout.sec = nondet_i64(); q1.timeout.usec = nondet_uint(); q2.timeout.usec = nondet_uint();
  int r = ares_query_timeout_cmp_cb(&q1, &q2);
  int want = q1.timeout.sec != q2.timeout.sec ? (q1.timeout.sec < q2.timeout.sec ? -1 : 1) : (q1.timeout.usec != q2.timeout.usec ? (q1.timeout.usec < q2.timeout.usec ? -1 : 1) : 0);
  __CPROVER_assert(sgn(r) == want, "C07: pending queries are ordered by deadline (seconds, then microseconds), earliest first");
  static ares_server_t s1, s2; s1.consec_failures = nondet_size(); s2.consec_failures = nondet_size(); s1.idx = nondet_size(); s2.idx = nondet_size();
  int rs = server_sort_cb(&s1, &s2);
  int wants = s1.consec_failures != s2.consec_failures ? (s1.consec_failures < s2.consec_failures ? -1 : 1) : (s1.idx != s2.idx ? (s1.idx < s2.idx ? -1 : 1) : 0);
  __CPROVER_assert(sgn(rs) == wants, "C09: servers are ordered by consecutive failures, then by configured position, best first");
}
#endif
