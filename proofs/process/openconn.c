/* C10/C14: the real ares_open_connection() (src/lib/ares_conn.c): on every failure the descriptor obtained (if any) is closed
 * exactly once, nothing stays registered and nothing leaks; on success the connection is registered and announced. */
#include "nd.h"
#include <stdlib.h>
#include <string.h>
#include "src/lib/ares_conn.c"
#include "openconn_ghost.h"
static char list_tok, ob_tok, ib_tok, node_tok; static int g_freed_conn, g_list_destroyed, g_bufs_destroyed; static ares_conn_t *g_c;
void *ares_malloc(size_t n) { if (nondet_bool()) return NULL; void *p = malloc(n); __CPROVER_assume(p != NULL); g_c = p; return p; }
void ares_free(void *p) { if (p != NULL && p == (void *)g_c) g_freed_conn++; free(p); }
ares_llist_t *ares_llist_create(ares_llist_destructor_t d) { return nondet_bool() ? NULL : (ares_llist_t *)&list_tok; }
void ares_llist_destroy(ares_llist_t *l) { if (l) g_list_destroyed++; }
ares_buf_t *ares_buf_create(void) { static int k; return nondet_bool() ? NULL : (ares_buf_t *)((k++ & 1) ? &ib_tok : &ob_tok); }
void ares_buf_destroy(ares_buf_t *b) { if (b) g_bufs_destroyed++; }
ares_conn_err_t ares_socket_open(ares_socket_t *sock, ares_channel_t *channel, int af, int type, int protocol) { if (nondet_bool()) return ARES_CONN_ERR_FAILURE; g_opened++; *sock = 9; return ARES_CONN_ERR_SUCCESS; }
void ares_socket_close(ares_channel_t *channel, ares_socket_t s) { if (s == ARES_SOCKET_BAD) return; __CPROVER_assert(s == 9 && g_opened == 1 && g_closed == 0, "C10: only an open socket is closed, once"); g_closed++; }
ares_status_t ares_socket_configure(ares_channel_t *channel, int family, ares_bool_t is_tcp, ares_socket_t fd) { __CPROVER_assert(fd == 9 && g_closed == 0, "C10: options are set on the open socket"); return nondet_bool() ? ARES_SUCCESS : ARES_ECONNREFUSED; }
ares_conn_err_t ares_socket_enable_tfo(const ares_channel_t *channel, ares_socket_t fd) { __CPROVER_assert(fd == 9 && g_closed == 0, "C10: TFO is enabled on the open socket"); return nondet_bool() ? ARES_CONN_ERR_SUCCESS : ARES_CONN_ERR_NOTIMP; }
static int cfg_cb(ares_socket_t fd, int type, void *ud) { __CPROVER_assert(fd == 9 && g_closed == 0, "C10: the application's socket callbacks see an open socket"); return nondet_bool() ? 0 : -1; }
ares_llist_node_t *ares_llist_insert_last(ares_llist_t *l, void *v) { if (nondet_bool()) return NULL; g_in_list = 1; return (ares_llist_node_t *)&node_tok; }
ares_llist_node_t *ares_llist_insert_first(ares_llist_t *l, void *v) { if (nondet_bool()) return NULL; g_in_list = 1; return (ares_llist_node_t *)&node_tok; }
void *ares_llist_node_claim(ares_llist_node_t *n) { if (n) g_in_list = 0; return NULL; }
ares_bool_t ares_htable_asvp_insert(ares_htable_asvp_t *h, ares_socket_t key, void *val) { __CPROVER_assert(key == 9, "C10: registered under its descriptor"); if (nondet_bool()) return ARES_FALSE; g_in_table = 1; return ARES_TRUE; }
static int g_announce; static unsigned g_announced;
static void state_cb(void *data, ares_socket_t fd, int r, int w) { __CPROVER_assert(fd == 9 && g_closed == 0, "C10: the application is told about an open socket"); g_announce++; g_announced = (r ? 1u : 0u) | (w ? 2u : 0u); }
void h_open_connection(void)
{
  static ares_channel_t ch; static ares_server_t srv; ares_conn_t *out = (ares_conn_t *)&node_tok; ares_bool_t tcp = nondet_bool() ? ARES_TRUE : ARES_FALSE;
  ch.sock_config_cb = nondet_bool() ? cfg_cb : NULL; ch.sock_create_cb = nondet_bool() ? cfg_cb : NULL; ch.sock_state_cb = state_cb; srv.connections = (ares_llist_t *)&list_tok; srv.addr.family = AF_INET; srv.channel = &ch; srv.tcp_conn = NULL;
  g_opened = g_closed = g_in_list = g_in_table = g_freed_conn = g_list_destroyed = g_bufs_destroyed = g_announce = 0; g_c = NULL; g_sockaddr_ok = nondet_bool(); g_connect_ok = nondet_bool(); g_selfip_ok = nondet_bool();
  ares_status_t rv = ares_open_connection(&out, &ch, &srv, tcp);
  if (rv != ARES_SUCCESS) {
    __CPROVER_assert(out == NULL, "C10/C14: no connection on failure");
    __CPROVER_assert(g_closed == g_opened, "C10: the descriptor obtained (if any) is closed exactly once on failure");
    __CPROVER_assert(!g_in_list && !g_in_table && srv.tcp_conn == NULL, "C10: a failed open leaves nothing registered");
    __CPROVER_assert(g_c == NULL || g_freed_conn == 1, "C14: the half-built connection is released");
    __CPROVER_assert(g_announce == 0, "C10: the application is never told to watch a socket that is then closed without a stop notification");
  } else {
    __CPROVER_assert(out == g_c && out->fd == 9 && g_opened == 1 && g_closed == 0, "C10: a successful open returns the connection with its open socket");
    __CPROVER_assert(g_in_list && g_in_table && (!tcp || srv.tcp_conn == out), "C10: ... registered in the server's list and the descriptor table");
    if (!(out->flags & ARES_CONN_FLAG_TFO_INITIAL)) __CPROVER_assert(g_announce == 1 && g_announced == (tcp ? 3u : 1u), "C10: the application is told to watch the socket before events on it are needed (read; read+write for TCP until connected)");
  }
}
