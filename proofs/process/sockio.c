/* C20/C10: the thin layer between the connection code and the application's socket functions -- ares_socket_write(),
 * ares_socket_recv(), ares_socket_recvfrom() and the errno mapping of the real src/lib/ares_socket.c (loop free, complete):
 * a positive count is success with exactly that count (also when fewer bytes were accepted than offered: the caller consumes what
 * was written and keeps the rest); "would block" is reported only when nothing was transferred; end of stream only for streams. */
#include "nd.h"
#include <stdlib.h>
#include <string.h>
#include <errno.h>
#include "src/lib/ares_socket.c"
static ares_ssize_t g_rv; static int g_errno; static size_t g_len_seen;
static ares_ssize_t f_sendto(ares_socket_t s, const void *b, size_t l, int fl, const struct sockaddr *a, ares_socklen_t al, void *u) { g_len_seen = l; errno = g_errno; return g_rv; }
static ares_ssize_t f_recvfrom(ares_socket_t s, void *b, size_t l, int fl, struct sockaddr *a, ares_socklen_t *al, void *u) { g_len_seen = l; errno = g_errno; return g_rv; }
void h_sock_io(void)
{
  static ares_channel_t ch; ch.sock_funcs.asendto = f_sendto; ch.sock_funcs.arecvfrom = f_recvfrom; static unsigned char buf[8]; size_t len = 1 + nondet_size() % 8;
  g_rv = (ares_ssize_t)nondet_i64(); g_errno = nondet_bool() ? EWOULDBLOCK : (nondet_bool() ? ECONNREFUSED : nondet_int()); __CPROVER_assume(g_rv <= (ares_ssize_t)len);
  size_t n = 777; _Bool tcp = nondet_bool();
  switch (nondet_uint() % 3) {
    case 0: {
      ares_conn_err_t e = ares_socket_write(&ch, 3, buf, len, &n, NULL, 0);
      __CPROVER_assert(g_len_seen == len, "C20: the bytes offered to the transport are the bytes the caller gave");
      if (g_rv > 0) __CPROVER_assert(e == ARES_CONN_ERR_SUCCESS && n == (size_t)g_rv, "C20: bytes accepted by the transport are reported as written -- all of them or only some (a short write is progress, not 'would block')");
      else { __CPROVER_assert(e != ARES_CONN_ERR_SUCCESS && n == 777, "C20: nothing accepted: an error, and no byte count"); if (g_errno == EWOULDBLOCK) __CPROVER_assert(e == ARES_CONN_ERR_WOULDBLOCK, "C20: a full send buffer is 'would block'"); if (g_errno == ECONNREFUSED) __CPROVER_assert(e == ARES_CONN_ERR_CONNREFUSED, "C09: a refused connection is reported as such"); }
      break; }
    case 1: {
      ares_conn_err_t e = ares_socket_recv(&ch, 3, tcp ? ARES_TRUE : ARES_FALSE, buf, len, &n);
      if (g_rv > 0) __CPROVER_assert(e == ARES_CONN_ERR_SUCCESS && n == (size_t)g_rv, "C20: bytes delivered by the transport are reported as read, however few");
      else if (g_rv == 0) __CPROVER_assert(n == 0 && e == (tcp ? ARES_CONN_ERR_CONNCLOSED : ARES_CONN_ERR_SUCCESS), "C20: zero bytes ends a stream but is an (empty) datagram");
      else { __CPROVER_assert(n == 0 && e != ARES_CONN_ERR_SUCCESS, "C20: a failed read delivers nothing"); if (g_errno == EWOULDBLOCK) __CPROVER_assert(e == ARES_CONN_ERR_WOULDBLOCK, "C20: nothing to read yet is 'would block'"); }
      break; }
    default: {
      struct sockaddr_in from; ares_socklen_t fl = sizeof(from); n = 0;
      ares_conn_err_t e = ares_socket_recvfrom(&ch, 3, tcp ? ARES_TRUE : ARES_FALSE, buf, len, 0, (struct sockaddr *)&from, &fl, &n);
      if (g_rv > 0) __CPROVER_assert(e == ARES_CONN_ERR_SUCCESS && n == (size_t)g_rv, "C20: bytes delivered by the transport are reported as read, however few");
      else if (g_rv == 0) __CPROVER_assert(e == (tcp ? ARES_CONN_ERR_CONNCLOSED : ARES_CONN_ERR_SUCCESS), "C20: zero bytes ends a stream but is an (empty) datagram");
      else __CPROVER_assert(e != ARES_CONN_ERR_SUCCESS, "C20: a failed read is an error");
      break; }
  }
}
