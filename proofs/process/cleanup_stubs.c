/* ares_close_connection() (same file, own obligation process.close_connection) is stood in for by a recorder */
#include "ares_private.h"
extern int cu_closed[2]; extern ares_conn_t cu_conn[2]; extern ares_status_t cu_status;
void ares_close_connection(ares_conn_t *conn, ares_status_t requeue_status) { cu_closed[conn - cu_conn]++; cu_status = requeue_status; }
