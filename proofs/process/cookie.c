/* C17/C05/C06: the real src/lib/ares_cookie.c against the RFC 7873 client transition relation.
 * Both functions are loop-free with fixed-size copies: harness-style Hoare triples over full-domain inputs are
 * complete per step.  The OPT record is a ghost model behind the record getters/setters (plain C stubs). */
#include <stddef.h>
#include <stdlib.h>
#include <string.h>
#include "nd.h"
#include "src/lib/ares_cookie.c"

/* ASSUMED: ghost OPT-record model: ares_dns_get_opt_rr(_const), ares_dns_rr_get_opt_byid, ares_dns_rr_set_opt, ares_dns_rr_del_opt_byid, ares_dns_record_get_rcode behave as accessors of one cookie option per record */
static ares_dns_rr_t g_req_rr, g_resp_rr; static char d_req, d_resp;
static _Bool g_req_has_opt, g_resp_has_opt, g_req_has_cookie, g_resp_has_cookie;
static unsigned char g_req_cookie[40], g_resp_cookie[48]; static size_t g_req_cookie_len, g_resp_cookie_len;
static ares_dns_rcode_t g_resp_rcode;
static int g_set_opt_calls, g_del_opt_calls, g_requeue_calls; static unsigned char g_sent[40]; static size_t g_sent_len; static ares_bool_t g_requeue_inc;
#define REQ  ((ares_dns_record_t *)&d_req)
#define RESP ((ares_dns_record_t *)&d_resp)
const ares_dns_rr_t *ares_dns_get_opt_rr_const(const ares_dns_record_t *rec) { if (rec == REQ) return g_req_has_opt ? &g_req_rr : NULL; return g_resp_has_opt ? &g_resp_rr : NULL; }
ares_dns_rr_t *ares_dns_get_opt_rr(ares_dns_record_t *rec) { return g_req_has_opt ? &g_req_rr : NULL; }
ares_bool_t ares_dns_rr_get_opt_byid(const ares_dns_rr_t *rr, ares_dns_rr_key_t key, unsigned short opt, const unsigned char **val, size_t *val_len)
{
  if (rr == &g_resp_rr) { if (!g_resp_has_cookie) return ARES_FALSE; *val = g_resp_cookie; *val_len = g_resp_cookie_len; return ARES_TRUE; }
  if (!g_req_has_cookie) return ARES_FALSE; *val = g_req_cookie; *val_len = g_req_cookie_len; return ARES_TRUE;
}
ares_status_t ares_dns_rr_set_opt(ares_dns_rr_t *rr, ares_dns_rr_key_t key, unsigned short opt, const unsigned char *val, size_t val_len)
{
  __CPROVER_assert(opt == ARES_OPT_PARAM_COOKIE && key == ARES_RR_OPT_OPTIONS, "C17: only the COOKIE option is written");
  __CPROVER_assert(val_len >= 8 && val_len <= 40, "C17: cookie sent has a legal length (8..40)");
  g_set_opt_calls++; g_sent_len = val_len; for (size_t i = 0; i < 40; i++) if (i < val_len) g_sent[i] = val[i];
  return nondet_bool() ? ARES_SUCCESS : ARES_ENOMEM;
}
ares_status_t ares_dns_rr_del_opt_byid(ares_dns_rr_t *rr, ares_dns_rr_key_t key, unsigned short opt) { g_del_opt_calls++; return ARES_SUCCESS; }
ares_dns_rcode_t ares_dns_record_get_rcode(const ares_dns_record_t *rec) { return g_resp_rcode; }
static unsigned char g_fresh[8];
void ares_rand_bytes(ares_rand_state *state, unsigned char *buf, size_t len) { for (size_t i = 0; i < 8; i++) if (i < len) buf[i] = g_fresh[i]; }
ares_status_t ares_requeue_query(ares_query_t *query, const ares_timeval_t *now, ares_status_t status, ares_bool_t inc_try_count, const ares_dns_record_t *dnsrec, ares_array_t **requeue) { g_requeue_calls++; g_requeue_inc = inc_try_count; return ARES_SUCCESS; }
/* ASSUMED: ares_timeval_diff as in ares_timeout.c (its arithmetic is proved in process.timeout_hint) */
void ares_timeval_diff(ares_timeval_t *d, const ares_timeval_t *a, const ares_timeval_t *b) { d->sec = b->sec - a->sec; if (b->usec > a->usec) d->usec = b->usec - a->usec; else { d->sec -= 1; d->usec = b->usec + 1000000 - a->usec; } }

static ares_channel_t ch; static ares_server_t srv; static ares_conn_t conn; static ares_query_t q; static ares_timeval_t now;
static void tv(ares_timeval_t *t) { t->sec = nondet_i64(); t->usec = nondet_uint(); __CPROVER_assume(t->sec >= 0 && t->sec < (1LL << 40) && t->usec < 1000000); }
static void setup(void)
{
  g_req_has_opt = nondet_bool(); g_resp_has_opt = nondet_bool(); g_req_has_cookie = nondet_bool(); g_resp_has_cookie = nondet_bool();
  g_req_cookie_len = nondet_size(); g_resp_cookie_len = nondet_size();
  for (int i = 0; i < 40; i++) g_req_cookie[i] = nondet_uchar();
  for (int i = 0; i < 48; i++) g_resp_cookie[i] = nondet_uchar();
  for (int i = 0; i < 8; i++) { g_fresh[i] = nondet_uchar(); srv.cookie.client[i] = nondet_uchar(); }
  for (int i = 0; i < 32; i++) srv.cookie.server[i] = nondet_uchar();
  g_resp_rcode = (ares_dns_rcode_t)nondet_uint();
  srv.channel = &ch; conn.server = &srv; q.query = REQ;
  srv.cookie.state = (ares_cookie_state_t)(nondet_uint() % 4); srv.cookie.server_len = nondet_size();
  tv(&now); tv(&srv.cookie.client_ts); tv(&srv.cookie.unsupported_ts);
  if (nondet_bool()) { srv.cookie.unsupported_ts.sec = 0; srv.cookie.unsupported_ts.usec = 0; }
  __CPROVER_assume(srv.cookie.client_ts.sec <= now.sec && srv.cookie.unsupported_ts.sec <= now.sec);
  conn.flags = (ares_conn_flags_t)nondet_uint(); q.cookie_try_count = nondet_size(); q.using_tcp = nondet_bool() ? ARES_TRUE : ARES_FALSE;
  conn.self_ip.family = nondet_bool() ? AF_INET : AF_INET6; srv.cookie.client_ip.family = nondet_bool() ? AF_INET : AF_INET6;
  for (int i = 0; i < 16; i++) { ((unsigned char *)&conn.self_ip.addr)[i] = nondet_uchar(); ((unsigned char *)&srv.cookie.client_ip.addr)[i] = nondet_uchar(); }
  /* type invariants of the inputs */
  __CPROVER_assume(srv.cookie.server_len <= 32 && g_req_cookie_len >= 8 && g_req_cookie_len <= 40 && g_resp_cookie_len <= 48);
  __CPROVER_assume(!g_req_has_cookie || g_req_has_opt); __CPROVER_assume(!g_resp_has_cookie || g_resp_has_opt);
  __CPROVER_assume(q.cookie_try_count < 1000);
  /* state invariants of the cookie record: INITIAL/UNSUPPORTED carry no server cookie */
  __CPROVER_assume(srv.cookie.state == ARES_COOKIE_SUPPORTED || srv.cookie.state == ARES_COOKIE_GENERATED || srv.cookie.server_len == 0);
}
#define TS_SET(t) ((t).sec != 0 || (t).usec != 0)
static _Bool same8(const unsigned char *a, const unsigned char *b) { for (int i = 0; i < 8; i++) if (a[i] != b[i]) return 0; return 1; }

void h_cookie_validate(void)
{
  setup();
  ares_cookie_t c0 = srv.cookie; size_t tc0 = q.cookie_try_count; ares_array_t *rq = NULL;
  _Bool valid_resp_cookie = g_resp_has_cookie && g_resp_cookie_len >= 8 && g_resp_cookie_len <= 40 && same8(g_resp_cookie, g_req_cookie);
  _Bool has_server_part = valid_resp_cookie && g_resp_cookie_len > 8;
  ares_status_t rv = ares_cookie_validate(&q, RESP, &conn, &now, &rq);
  __CPROVER_assert(srv.cookie.server_len <= 32, "C17/C02: stored server cookie fits its 32-byte field");
  if (!g_req_has_cookie) { __CPROVER_assert(rv == ARES_SUCCESS || (g_resp_has_cookie && (g_resp_cookie_len < 8 || g_resp_cookie_len > 40)), "C17: a request without cookie is not subject to cookie checks"); return; }
  if (rv == ARES_SUCCESS) {
    __CPROVER_assert(!g_resp_has_cookie || valid_resp_cookie, "C05/C17: an accepted response cookie has length 8..40 and echoes the client cookie");
    __CPROVER_assert(g_resp_rcode != ARES_RCODE_BADCOOKIE, "C17: a BADCOOKIE reply is never accepted as an answer");
    __CPROVER_assert(!(c0.state == ARES_COOKIE_SUPPORTED && !has_server_part), "C05/C17: once a server has proven cookie support, a response lacking a valid server cookie is ignored");
  }
  if (g_resp_has_cookie && !valid_resp_cookie) __CPROVER_assert(rv != ARES_SUCCESS, "C05: spoofed / malformed cookie is dropped");
  if (has_server_part) {
    __CPROVER_assert(srv.cookie.state == ARES_COOKIE_SUPPORTED && !TS_SET(srv.cookie.unsupported_ts), "C17: a server cookie proves support and clears the regression timer");
    if (same8(c0.client, g_req_cookie)) { __CPROVER_assert(srv.cookie.server_len == g_resp_cookie_len - 8, "C17: latest server cookie is remembered"); for (int i = 0; i < 32; i++) if ((size_t)i < srv.cookie.server_len) __CPROVER_assert(srv.cookie.server[i] == g_resp_cookie[8 + i], "C17: latest server cookie bytes are remembered"); }
    else __CPROVER_assert(srv.cookie.server_len == c0.server_len, "C17: a server cookie for a rotated client cookie is not stored");
  }
  if (valid_resp_cookie && g_resp_rcode == ARES_RCODE_BADCOOKIE) {
    __CPROVER_assert(rv != ARES_SUCCESS && g_requeue_calls == 1 && g_requeue_inc == ARES_FALSE, "C17/C06: BADCOOKIE causes exactly one resend that is not counted as a try");
    __CPROVER_assert(q.cookie_try_count == tc0 + 1, "C06/C17: every BADCOOKIE resend is counted");
    __CPROVER_assert(q.cookie_try_count < 3 || q.using_tcp == ARES_TRUE, "C17/C06: the third BADCOOKIE falls back to TCP");
  } else __CPROVER_assert(g_requeue_calls == 0 && q.cookie_try_count == tc0, "C17: no resend otherwise");
  if (!has_server_part && g_resp_rcode != ARES_RCODE_BADCOOKIE && (!g_resp_has_cookie || valid_resp_cookie)) {
    if (c0.state == ARES_COOKIE_SUPPORTED) {
      __CPROVER_assert(rv != ARES_SUCCESS, "C05/C17: cookie-less reply from a supporting server is dropped");
      if (TS_SET(c0.unsupported_ts)) __CPROVER_assert(srv.cookie.unsupported_ts.sec == c0.unsupported_ts.sec && srv.cookie.unsupported_ts.usec == c0.unsupported_ts.usec, "C17: the regression period runs from the FIRST cookie-less reply (timer not restarted)");
      else __CPROVER_assert(srv.cookie.unsupported_ts.sec == now.sec && srv.cookie.unsupported_ts.usec == now.usec, "C17: the regression period starts at the first cookie-less reply");
      __CPROVER_assert(srv.cookie.state == ARES_COOKIE_SUPPORTED, "C17: state kept until the regression period passes");
    }
    if (c0.state == ARES_COOKIE_GENERATED) __CPROVER_assert(rv == ARES_SUCCESS && srv.cookie.state == ARES_COOKIE_UNSUPPORTED && srv.cookie.unsupported_ts.sec == now.sec && srv.cookie.server_len == 0, "C17: a server that never returns cookies is used without them");
  }
}

void h_cookie_apply(void)
{
  setup();
  ares_cookie_t c0 = srv.cookie;
  ares_status_t rv = ares_cookie_apply(REQ, &conn, &now);
  if (!g_req_has_opt) { __CPROVER_assert(g_set_opt_calls == 0 && g_del_opt_calls == 0 && rv == ARES_SUCCESS, "C17: no EDNS, no cookie handling"); return; }
  if (conn.flags & ARES_CONN_FLAG_TCP) { __CPROVER_assert(g_set_opt_calls == 0 && g_del_opt_calls == 1, "C17: never sends cookies over TCP (any cookie present is removed)"); return; }
  long long since_unsup = now.sec - c0.unsupported_ts.sec;
  _Bool regress = c0.state == ARES_COOKIE_SUPPORTED && TS_SET(c0.unsupported_ts) && since_unsup >= 121;
  _Bool no_regress = !(c0.state == ARES_COOKIE_SUPPORTED && TS_SET(c0.unsupported_ts) && since_unsup >= 119);
  if (c0.state == ARES_COOKIE_UNSUPPORTED && since_unsup <= 118) {
    __CPROVER_assert(g_set_opt_calls == 0 && g_del_opt_calls == 1 && srv.cookie.state == ARES_COOKIE_UNSUPPORTED, "C17: a server known not to support cookies is sent none (a stale cookie in the request is removed)");
    return;
  }
  if (c0.state == ARES_COOKIE_UNSUPPORTED && since_unsup < 121) return; /* millisecond granularity window: either behaviour allowed */
  __CPROVER_assert(g_set_opt_calls == 1 && g_del_opt_calls == 0, "C17: over UDP with EDNS a cookie is sent");
  __CPROVER_assert(g_sent_len == 8 + srv.cookie.server_len, "C17: cookie = client part || latest server cookie");
  for (int i = 0; i < 40; i++) if ((size_t)i < g_sent_len) __CPROVER_assert(g_sent[i] == (i < 8 ? srv.cookie.client[i] : srv.cookie.server[i - 8]), "C17: cookie bytes = client part || latest server cookie");
  __CPROVER_assert(srv.cookie.state == ARES_COOKIE_GENERATED || srv.cookie.state == ARES_COOKIE_SUPPORTED, "C17: state after sending");
  /* client part constant per server and source address until rotated */
  _Bool same_ip = c0.client_ip.family == conn.self_ip.family && (conn.self_ip.family == AF_INET ? memcmp(&c0.client_ip.addr.addr4, &conn.self_ip.addr.addr4, 4) == 0 : memcmp(&c0.client_ip.addr.addr6, &conn.self_ip.addr.addr6, 16) == 0);
  long long age = now.sec - c0.client_ts.sec;
  if ((c0.state == ARES_COOKIE_GENERATED || (c0.state == ARES_COOKIE_SUPPORTED && no_regress && age <= 86398)) && same_ip) {
    __CPROVER_assert(same8(srv.cookie.client, c0.client), "C17: client cookie constant per server and source address until rotated");
    __CPROVER_assert(srv.cookie.server_len == c0.server_len && srv.cookie.state == c0.state, "C17: latest server cookie is echoed unchanged");
  }
  if (!same_ip && (c0.state == ARES_COOKIE_GENERATED || c0.state == ARES_COOKIE_SUPPORTED)) __CPROVER_assert(same8(srv.cookie.client, g_fresh) && srv.cookie.server_len == 0, "C17: source address change rotates the client cookie and forgets the server cookie");
  if (c0.state == ARES_COOKIE_SUPPORTED && no_regress && age >= 86401) __CPROVER_assert(same8(srv.cookie.client, g_fresh) && srv.cookie.server_len == 0, "C17: client cookie is rotated after a day");
  if (regress) __CPROVER_assert(srv.cookie.state == ARES_COOKIE_GENERATED && srv.cookie.server_len == 0 && same8(srv.cookie.client, g_fresh), "C17: after the regression period the server is re-learned from scratch");
}
