/* C01: read_answers() (real src/lib/ares_process.c, the function of CVE-2025-31498) never touches the connection it reads from
 * after a completion callback closed it.  Between two frames process_answer() runs callbacks; the library's own search /
 * getaddrinfo follow-up query may be transmitted on this very connection, and a failed transmission closes and frees it. */
#include "nd.h"
#include <stdlib.h>
#include <string.h>
#include "src/lib/ares_process.c"
#define GHOST_DEFINE
#include "readconn_ghost.h"
void h_read_answers_reentry(void)
{
  static ares_channel_t ch; static ares_server_t srv; ares_timeval_t now; now.sec = 1; now.usec = 0;
  ares_conn_t *conn = malloc(sizeof(*conn)); __CPROVER_assume(conn != NULL); memset(conn, 0, sizeof(*conn));
  srv.channel = &ch; conn->server = &srv; conn->in_buf = (ares_buf_t *)&g_rc_buf_tok; conn->fd = nondet_int(); __CPROVER_assume(conn->fd >= 0);
  g_rc_conn = conn; g_rc_alive = 1; g_rc_frames = 0; g_rc_closed = 0;
  read_answers(conn, &now);
  __CPROVER_assert(g_rc_closed <= 1, "C10: the connection is closed at most once");
  if (g_rc_alive) free(conn);
}
