/* C05/C09/C10: question matching, server selection and the send step of the real src/lib/ares_process.c. */
#include "nd.h"
#include <stdlib.h>
#include <string.h>
#include "src/lib/ares_process.c"

#if defined(T_SAMEQ)
/* ---------------- same_questions: exact question match, case-sensitive under 0x20 ---------------------- */
/* ASSUMED: ghost question section behind ares_dns_record_query_cnt/_get; ares_streq / ares_strcaseeq are exact / ASCII-case-insensitive string equality */
#define QMAX 2
static char r_req, r_ans; static size_t g_cnt[2]; static ares_dns_rec_type_t g_type[2][QMAX]; static ares_dns_class_t g_class[2][QMAX];
static char g_names[2][QMAX][2]; static _Bool g_eq_exact[QMAX], g_eq_ci[QMAX]; static int g_used_exact, g_used_ci; static _Bool g_get_fail;
#define RI(rec) ((const char *)(rec) == &r_req ? 0 : 1)
size_t ares_dns_record_query_cnt(const ares_dns_record_t *rec) { return g_cnt[RI(rec)]; }
ares_status_t ares_dns_record_query_get(const ares_dns_record_t *rec, size_t idx, const char **name, ares_dns_rec_type_t *qtype, ares_dns_class_t *qclass)
{ if (idx >= g_cnt[RI(rec)] || idx >= QMAX || g_get_fail) return ARES_EFORMERR; *name = g_names[RI(rec)][idx]; *qtype = g_type[RI(rec)][idx]; *qclass = g_class[RI(rec)][idx]; return ARES_SUCCESS; }
static size_t name_idx(const char *a) { for (size_t i = 0; i < QMAX; i++) if (a == g_names[0][i] || a == g_names[1][i]) return i; return 0; }
ares_bool_t ares_streq(const char *a, const char *b) { g_used_exact++; return g_eq_exact[name_idx(a)] ? ARES_TRUE : ARES_FALSE; }
ares_bool_t ares_strcaseeq(const char *a, const char *b) { g_used_ci++; return g_eq_ci[name_idx(a)] ? ARES_TRUE : ARES_FALSE; }
void h_same_questions(void)
{
  static ares_query_t q; static ares_channel_t ch; q.channel = &ch; q.query = (ares_dns_record_t *)&r_req;
  ch.flags = nondet_uint(); q.using_tcp = nondet_bool() ? ARES_TRUE : ARES_FALSE; g_get_fail = nondet_bool();
  g_cnt[0] = nondet_size(); g_cnt[1] = nondet_size(); __CPROVER_assume(g_cnt[0] <= QMAX && g_cnt[1] <= QMAX);
  for (int i = 0; i < QMAX; i++) { g_type[0][i] = (ares_dns_rec_type_t)nondet_uint(); g_type[1][i] = (ares_dns_rec_type_t)nondet_uint(); g_class[0][i] = (ares_dns_class_t)nondet_uint(); g_class[1][i] = (ares_dns_class_t)nondet_uint(); g_eq_exact[i] = nondet_bool(); g_eq_ci[i] = nondet_bool(); __CPROVER_assume(!g_eq_exact[i] || g_eq_ci[i]); }
  g_used_exact = g_used_ci = 0;
  ares_bool_t rv = same_questions(&q, (ares_dns_record_t *)&r_ans);
  _Bool cs = (ch.flags & ARES_FLAG_DNS0x20) && !q.using_tcp;
  if (rv == ARES_TRUE) {
    __CPROVER_assert(g_cnt[0] == g_cnt[1] && (g_cnt[0] == 0 || !g_get_fail), "C05: same number of questions");
    for (size_t i = 0; i < QMAX; i++) if (i < g_cnt[0]) {
      __CPROVER_assert(g_type[0][i] == g_type[1][i] && g_class[0][i] == g_class[1][i], "C05: question type and class match exactly");
      __CPROVER_assert(cs ? g_eq_exact[i] : g_eq_ci[i], "C05: question name matches (case-sensitively when 0x20 randomisation is on)");
    }
    __CPROVER_assert(cs ? g_used_ci == 0 : g_used_exact == 0, "C05: the comparison mode follows the 0x20 setting");
  } else {
    _Bool all = g_cnt[0] == g_cnt[1] && (g_cnt[0] == 0 || !g_get_fail);
    for (size_t i = 0; i < QMAX; i++) if (i < g_cnt[0] && i < g_cnt[1]) all = all && g_type[0][i] == g_type[1][i] && g_class[0][i] == g_class[1][i] && (cs ? g_eq_exact[i] : g_eq_ci[i]);
    __CPROVER_assert(!all, "C05: a genuinely matching response is not rejected");
  }
}

#elif defined(T_PICK)
/* ---------------- which server gets a fresh attempt ---------------------------------------------------- */
/* ASSUMED: the server list iterates in sorted order (consecutive failures, then configuration index): ares_slist contract (bounded checks in proofs/slist) */
#define SMAX 4
static ares_server_t g_srv[SMAX]; static size_t g_ns; static unsigned char g_rand;
ares_slist_node_t *ares_slist_node_first(const ares_slist_t *l) { return g_ns ? (ares_slist_node_t *)&g_srv[0] : NULL; }
ares_slist_node_t *ares_slist_node_next(const ares_slist_node_t *n) { size_t i = (size_t)((ares_server_t *)n - g_srv); return i + 1 < g_ns ? (ares_slist_node_t *)&g_srv[i + 1] : NULL; }
void *ares_slist_node_val(ares_slist_node_t *n) { return n; }
void *ares_slist_first_val(const ares_slist_t *l) { return g_ns ? &g_srv[0] : NULL; }
void ares_rand_bytes(ares_rand_state *s, unsigned char *b, size_t n) { for (size_t i = 0; i < n && i < 2; i++) b[i] = g_rand; }
void h_pick_server(void)
{
  static ares_channel_t ch; g_ns = nondet_size(); g_rand = nondet_uchar(); __CPROVER_assume(g_ns <= SMAX);
  for (size_t i = 0; i < SMAX; i++) { g_srv[i].consec_failures = nondet_size(); g_srv[i].idx = i; if (i > 0 && i < g_ns) __CPROVER_assume(g_srv[i - 1].consec_failures <= g_srv[i].consec_failures); }
  size_t best = 0; for (size_t i = 0; i < SMAX; i++) if (i < g_ns && g_srv[i].consec_failures == g_srv[0].consec_failures) best++;
  size_t cnt = count_highest_prio_servers(&ch);
  __CPROVER_assert(cnt == best, "C09: the candidates are exactly the servers with the fewest consecutive failures");
  ares_server_t *s = ares_random_server(&ch);
  __CPROVER_assert((s == NULL) == (g_ns == 0), "C09: with rotation a server is chosen whenever one is configured (even if all have failed)");
  if (s != NULL) __CPROVER_assert(s >= g_srv && s < g_srv + g_ns && s->consec_failures == g_srv[0].consec_failures, "C09: the random choice is among the servers with the fewest consecutive failures");
}

#else
/* ---------------- ares_send_query: choice, status mapping, bookkeeping -------------------------------
 * The callees of ares_send_query that live in the same file (static ones included) are replaced at link time by the
 * plain C stand-ins of select_stubs.c (bodies removed with goto-instrument --remove-function-body). */
#include "select_ghost.h"
void h_send_query(void)
{
  static ares_channel_t ch; static ares_query_t q; ares_timeval_t now; _Bool have_req = nondet_bool();
  q.channel = &ch; ch.rotate = nondet_bool() ? ARES_TRUE : ARES_FALSE; q.try_count = nondet_size(); q.using_tcp = nondet_bool() ? ARES_TRUE : ARES_FALSE;
  g_random = nondet_bool() ? &g_rnd : NULL; g_fetched = nondet_bool() ? &g_conn : NULL; g_open_status = (ares_status_t)(nondet_uint() % 30); g_write_status = (ares_status_t)(nondet_uint() % 30);
  g_first.consec_failures = nondet_size(); g_rnd.consec_failures = nondet_size(); g_req.consec_failures = nondet_size(); g_timeplus = nondet_size(); __CPROVER_assume(g_timeplus <= 0x7fffffff);
  g_tmo_ok = nondet_bool(); g_ll_ok = nondet_bool(); g_conn.total_queries = nondet_size() >> 1;
  now.sec = nondet_i64(); now.usec = nondet_uint(); __CPROVER_assume(now.sec >= 0 && now.sec < (1LL << 40) && now.usec < 1000000);
  g_ended = g_requeued = g_incfail = g_connerr = g_probed = g_order = g_tmo_destroyed = g_ll_destroyed = g_timeadd = 0; g_fetch_server = NULL;
  g_wakeups = 0; g_new_is_earliest = nondet_bool(); g_write_wakes = nondet_bool(); ch.optmask = nondet_uint(); g_conn.flags = (ares_conn_flags_t)(nondet_uint() & 7u);
  g_cb_may_cancel = nondet_bool(); g_query_released = 0; g_sending = &q; q.qid = nondet_u16();
  size_t tq0 = g_conn.total_queries;
  ares_status_t rv = ares_send_query(have_req ? &g_req : NULL, &q, &now);
  ares_server_t *want = have_req ? &g_req : (ch.rotate ? g_random : &g_first);
  if (want == NULL) { __CPROVER_assert(g_ended == 1 && rv == ARES_ENOSERVER && g_fetch_server == NULL, "C09: no server to choose: the query fails with ENOSERVER"); return; }
  __CPROVER_assert(g_fetch_server == want, "C09: a fresh attempt goes to the requested server, else the first (no rotation) or a random best (rotation) server");
  __CPROVER_assert(g_ended + g_requeued <= 1, "C01: a send step ends the query at most once, or hands it to the retry step at most once");
  _Bool opened = g_fetched != NULL || g_open_status == ARES_SUCCESS;
  if (!opened) {
    if (g_open_status == ARES_ECONNREFUSED || g_open_status == ARES_EBADFAMILY) __CPROVER_assert(g_incfail == 1 && g_requeued == 1 && g_rq_inc == ARES_TRUE && g_rq_status == g_open_status && g_ended == 0, "C06/C09: a server-specific connect failure demotes the server and consumes a try");
    else __CPROVER_assert(g_ended == 1 && g_end_status == g_open_status && g_requeued == 0, "C06: any other open failure ends the query with that status");
    return;
  }
  if (g_write_status != ARES_SUCCESS) {
    if (g_write_status == ARES_ENOMEM) __CPROVER_assert(g_ended == 1 && g_requeued == 0, "C14: out of memory ends the query");
    else if (g_query_released) __CPROVER_assert(g_requeued == 0 && g_ended == 0 && rv != ARES_SUCCESS, "C01: a query cancelled while its connection was being closed is left alone (its callback has fired)");
    else __CPROVER_assert(g_requeued == 1 && g_rq_inc == ARES_TRUE && g_ended == 0 && g_incfail + g_connerr == 1, "C06/C09: a write failure demotes the server (or fails the connection) and consumes a try");
    return;
  }
  if (!g_tmo_ok || !g_ll_ok) { __CPROVER_assert(g_ended == 1 && g_end_status == ARES_ENOMEM && rv == ARES_ENOMEM, "C14: index insertion failure ends the query with ENOMEM"); return; }
  __CPROVER_assert(rv == ARES_SUCCESS && g_ended == 0 && g_requeued == 0, "C01: a sent query stays outstanding");
  __CPROVER_assert(q.conn == &g_conn && g_conn.total_queries == tq0 + 1, "C10: the query is charged to the connection that carries it");
  __CPROVER_assert(q.node_queries_by_timeout == (ares_slist_node_t *)&tok_tmo && q.node_queries_to_conn == (ares_llist_node_t *)&tok_conn, "C07: a sent query is in the timeout index and on its connection");
  __CPROVER_assert(g_timeadd == 1 && q.ts.sec == now.sec && q.ts.usec == now.usec, "C07: the deadline is now + the timeout computed for the chosen server");
  if ((ch.optmask & ARES_OPT_EVENT_THREAD) && g_new_is_earliest) __CPROVER_assert(g_wakeups > 0, "C07: the event thread is woken when a sent query becomes the earliest deadline (it computed its sleep before this deadline existed; a query reusing an idle connection changes no socket interest)");
  __CPROVER_assert((g_probed == 1) == (!have_req && want->consec_failures == 0 && q.try_count == 0), "C09: failed servers are probed only alongside a fresh, undirected attempt on a healthy server");
}
#ifdef T_CONNERR
static void server_increment_failures(ares_server_t *server, ares_bool_t used_tcp) __CPROVER_requires(1) __CPROVER_assigns(g_incfail, g_order, g_incfail_at) __CPROVER_ensures(g_incfail == __CPROVER_old(g_incfail) + 1 && g_order == __CPROVER_old(g_order) + 1 && g_incfail_at == g_order);
void ares_close_connection(ares_conn_t *conn, ares_status_t requeue_status) { g_close_at = ++g_order; }
#endif
void h_conn_error(void)
{
  static ares_server_t srv; g_conn.server = &srv; g_conn.flags = (ares_conn_flags_t)nondet_uint(); ares_bool_t crit = nondet_bool() ? ARES_TRUE : ARES_FALSE;
  g_order = g_incfail = 0; g_incfail_at = g_close_at = 0;
  handle_conn_error(&g_conn, crit, ARES_ECONNREFUSED);
  __CPROVER_assert(g_close_at > 0, "C10: a failed connection is closed");
  __CPROVER_assert(crit ? (g_incfail == 1 && g_incfail_at < g_close_at) : g_incfail == 0, "C09: the server is demoted BEFORE its queries are requeued, so they move to another server");
}
#endif
