/* ghost state shared between select.c (harness) and select_stubs.c (stand-ins) */
#ifndef SELECT_GHOST_H
#define SELECT_GHOST_H
#ifdef GHOST_DEFINE
#define G
#else
#define G extern
#endif
G int g_ended, g_requeued, g_incfail, g_connerr, g_probed, g_order, g_incfail_at, g_close_at, g_timeadd, g_tmo_destroyed, g_ll_destroyed;
G ares_status_t g_end_status, g_rq_status, g_open_status, g_write_status; G ares_bool_t g_rq_inc;
G ares_server_t *g_fetch_server, *g_random; G ares_server_t g_first, g_rnd, g_req; G ares_conn_t g_conn; G ares_conn_t *g_fetched; G size_t g_timeplus;
G char tok_tmo, tok_conn; G _Bool g_tmo_ok, g_ll_ok;
/* re-entrancy: closing a connection completes its other queries; their callbacks may cancel the channel, which releases the query being sent */
G _Bool g_cb_may_cancel, g_query_released; G ares_query_t *g_sending;
/* event-thread liveness: the sleeping thread learns about a new earliest deadline only through a wake-up */
G int g_wakeups; G _Bool g_new_is_earliest, g_write_wakes; G char tok_other_tmo;
#endif
