/* C20/C01: stream reassembly in the real read_answers() (src/lib/ares_process.c) on the real ares_buf.c.
 * Unbounded in the number of frames: both loops are closed by loop contracts. */
#include "alloc.h"
#define memcpy  v_memcpy
#define memmove v_memmove
#include "src/lib/str/ares_buf.c"
#include "src/lib/ares_process.c"
#undef memcpy
#undef memmove
#include "buf_spec.h"

/* ghost */
_Bool g_conn_closed; size_t g_rq_len; ares_query_t *g_lookup; ares_conn_t *g_conn_ptr;
#define IB(c) ((c)->in_buf)

/* the frame handed over is exactly [tag+2, tag+2+len16) of the stream buffer: statement C20 "whole messages in order" */
static ares_status_t process_answer(ares_channel_t *channel, const unsigned char *abuf, size_t alen, ares_conn_t *conn, const ares_timeval_t *now, ares_array_t **requeue)
__CPROVER_requires(IB(conn)->tag_offset != NOTAG && IB(conn)->tag_offset + 2 <= IB(conn)->data_len)
__CPROVER_requires(abuf == IB(conn)->data + IB(conn)->tag_offset + 2)
__CPROVER_requires(alen == (size_t)BE16_AT(IB(conn)->data, IB(conn)->tag_offset))
__CPROVER_requires(IB(conn)->offset == IB(conn)->tag_offset + 2 + alen && IB(conn)->offset <= IB(conn)->data_len)
__CPROVER_requires(__CPROVER_rw_ok(requeue, sizeof(*requeue)))
__CPROVER_requires(!g_conn_closed)
/* completion callbacks run in here: a follow-up query transmitted on this connection may fail, which closes the connection */
__CPROVER_assigns(*requeue, g_rq_len, g_conn_closed)
__CPROVER_ensures(g_rq_len >= __CPROVER_old(g_rq_len) && g_rq_len <= __CPROVER_old(g_rq_len) + 2)
;
/* the descriptor table maps the descriptor to this connection exactly as long as it has not been closed */
ares_conn_t *ares_conn_from_fd(const ares_channel_t *channel, ares_socket_t fd)
__CPROVER_requires(1)
__CPROVER_assigns()
__CPROVER_ensures(g_conn_closed ? __CPROVER_return_value != g_conn_ptr : __CPROVER_return_value == g_conn_ptr)
;
static void handle_conn_error(ares_conn_t *conn, ares_bool_t critical_failure, ares_status_t failure_status)
__CPROVER_requires(!g_conn_closed)
__CPROVER_assigns(g_conn_closed)
__CPROVER_ensures(g_conn_closed == 1)
;
/* ASSUMED: requeue array as an opaque handle with ghost length g_rq_len (ares_array contracts proved in proofs/array) */
size_t ares_array_len(const ares_array_t *arr) __CPROVER_requires(1) __CPROVER_assigns() __CPROVER_ensures(__CPROVER_return_value == g_rq_len);
void ares_array_destroy(ares_array_t *arr) __CPROVER_requires(1) __CPROVER_assigns() __CPROVER_ensures(1);
ares_status_t ares_array_claim_at(void *dest, size_t dest_size, ares_array_t *arr, size_t idx)
__CPROVER_requires(__CPROVER_w_ok(dest, dest_size) && g_rq_len > 0)
__CPROVER_assigns(__CPROVER_object_whole(dest), g_rq_len)
/* array.claim_at: claiming index 0 of a non-empty array into a member-sized destination succeeds */
__CPROVER_ensures(__CPROVER_return_value == ARES_SUCCESS && g_rq_len == __CPROVER_old(g_rq_len) - 1)
;
/* the id index: a query that was ended in the meantime is simply not found */
void *ares_htable_szvp_get_direct(const ares_htable_szvp_t *htable, size_t key) __CPROVER_requires(1) __CPROVER_assigns(g_lookup) __CPROVER_ensures(__CPROVER_return_value == g_lookup);
ares_status_t ares_send_query(ares_server_t *requested_server, ares_query_t *query, const ares_timeval_t *now)
/* statement C01: never uses a request after releasing it => a deferred resend must look the query up again by id */
__CPROVER_requires(query != NULL && query == g_lookup)
__CPROVER_assigns()
__CPROVER_ensures(1)
;

static ares_status_t read_answers(ares_conn_t *conn, const ares_timeval_t *now)
__CPROVER_requires(__CPROVER_is_fresh(conn, sizeof(*conn)) && __CPROVER_is_fresh(conn->server, sizeof(*conn->server)) && __CPROVER_is_fresh(conn->server->channel, sizeof(*conn->server->channel)))
__CPROVER_requires(__CPROVER_is_fresh(conn->in_buf, sizeof(*conn->in_buf)))
__CPROVER_requires(IB(conn)->alloc_buf_len <= VCAP && IB(conn)->alloc_buf_len > 0 && __CPROVER_is_fresh(IB(conn)->alloc_buf, IB(conn)->alloc_buf_len) && __CPROVER_pointer_equals(IB(conn)->data, IB(conn)->alloc_buf) && IB(conn)->data_len < IB(conn)->alloc_buf_len && IB(conn)->offset <= IB(conn)->data_len && IB(conn)->tag_offset == NOTAG)
__CPROVER_requires(!g_conn_closed && g_rq_len == 0 && g_conn_ptr == conn)
__CPROVER_assigns(IB(conn)->offset, IB(conn)->tag_offset, g_conn_closed, g_rq_len, g_lookup)
__CPROVER_ensures(IB(conn)->offset <= IB(conn)->data_len && IB(conn)->offset >= __CPROVER_old(IB(conn)->offset))
/* statement C20: whatever is left unread is an incomplete frame that starts at a frame boundary (or the connection failed) */
__CPROVER_ensures(g_conn_closed || IB(conn)->data_len - IB(conn)->offset < 2 ||
   (size_t)BE16_AT(IB(conn)->data, IB(conn)->offset) > IB(conn)->data_len - IB(conn)->offset - 2)
__CPROVER_ensures(g_conn_closed || IB(conn)->tag_offset == NOTAG)
/* every deferred resend was flushed */
__CPROVER_ensures(g_rq_len == 0 || __CPROVER_return_value != ARES_SUCCESS)
;
void h_read_answers(void) { ares_conn_t *c; const ares_timeval_t *now; read_answers(c, now); }
