/* ASSUMED: stand-ins for the static helpers of ares_open_connection(): address conversion, connect, own-address lookup succeed or fail; they only ever see the open descriptor */
#include "ares_private.h"
#include "openconn_ghost.h"
ares_status_t ares_conn_set_sockaddr(const ares_conn_t *conn, struct sockaddr *sa, ares_socklen_t *salen) { return g_sockaddr_ok ? ARES_SUCCESS : ARES_EFORMERR; }
ares_status_t ares_conn_connect(ares_conn_t *conn, const struct sockaddr *sa, ares_socklen_t salen) { __CPROVER_assert(conn->fd == 9 && g_closed == 0, "C10: connect on the open socket"); return g_connect_ok ? ARES_SUCCESS : ARES_ECONNREFUSED; }
ares_status_t ares_conn_set_self_ip(ares_conn_t *conn, ares_bool_t early) { __CPROVER_assert(conn->fd == 9 && g_closed == 0, "C10: getsockname on the open socket"); return g_selfip_ok ? ARES_SUCCESS : ARES_ECONNREFUSED; }
