/* C06/C07: timeout arithmetic of the real ares_metrics.c, ares_process.c (ares_calc_query_timeout, timeadd,
 * ares_timedout) and ares_timeout.c.  Harness-style Hoare triples over full-domain symbolic inputs (loop-free or
 * constant-bounded => complete); stubs are plain C so a counterexample replays natively. */
#include <stddef.h>
#include <stdlib.h>
#include <string.h>
#include "nd.h"
#if defined(T_METRICS)
#include "src/lib/ares_metrics.c"
#elif defined(T_CALC)
#include "src/lib/ares_process.c"
#else
#include "src/lib/ares_timeout.c"
#endif

#if defined(T_METRICS)
/* ---- learned base timeout: 250 ms <= r <= (maxtimeout ? maxtimeout : 5000), capped value wins over the floor ---- */
void ares_tvnow(ares_timeval_t *now) { now->sec = nondet_i64(); now->usec = nondet_uint(); }
void h_metrics_timeout(void)
{
  static ares_server_t srv; static ares_channel_t ch; ares_timeval_t now;
  srv.channel = &ch; ch.timeout = nondet_size(); ch.maxtimeout = nondet_size();
  now.sec = nondet_i64(); now.usec = nondet_uint(); __CPROVER_assume(now.sec >= 0 && now.usec < 1000000);
  for (int i = 0; i < ARES_METRIC_COUNT; i++) {
    srv.metrics[i].ts = (time_t)nondet_i64(); srv.metrics[i].prev_ts = (time_t)nondet_i64();
    srv.metrics[i].total_ms = (ares_uint64_t)nondet_i64(); srv.metrics[i].prev_total_ms = (ares_uint64_t)nondet_i64();
    srv.metrics[i].total_count = (ares_uint64_t)nondet_i64(); srv.metrics[i].prev_total_count = (ares_uint64_t)nondet_i64();
    /* averages are sums of 32-bit latencies: the x5 multiplier cannot wrap */
    __CPROVER_assume(srv.metrics[i].total_ms <= srv.metrics[i].total_count * 0xFFFFFFFFull && srv.metrics[i].total_count < (1ull << 31));
    __CPROVER_assume(srv.metrics[i].prev_total_ms <= srv.metrics[i].prev_total_count * 0xFFFFFFFFull && srv.metrics[i].prev_total_count < (1ull << 31));
  }
  size_t r = ares_metrics_server_timeout(&srv, &now);
  size_t cap = ch.maxtimeout ? ch.maxtimeout : 5000;
  __CPROVER_assert(r <= cap, "C06: base timeout never above the configured maximum (5000 ms when none is set)");
  __CPROVER_assert(r >= 250 || r == cap, "C06: base timeout at least 250 ms unless the configured maximum is lower");
  __CPROVER_assert(r > 0 || cap == 0, "C06: base timeout positive");
}
#elif defined(T_CALC)
/* ---- per-attempt timeout: base <= r, r <= maxtimeout when set, no UB for any try_count ---- */
static size_t g_base, g_nsrv; static unsigned short g_rnd;
size_t ares_metrics_server_timeout(const ares_server_t *server, const ares_timeval_t *now) { return g_base; }
size_t ares_slist_len(const ares_slist_t *l) { return g_nsrv; }
void ares_rand_bytes(ares_rand_state *state, unsigned char *buf, size_t len) { if (len == 2) memcpy(buf, &g_rnd, 2); }
void h_calc_query_timeout(void)
{
  static ares_query_t q; static ares_channel_t ch; static ares_server_t srv; ares_timeval_t now;
  q.channel = &ch; q.try_count = nondet_size(); ch.maxtimeout = nondet_size();
  g_base = nondet_size(); g_nsrv = nondet_size(); g_rnd = nondet_u16();
  /* contract of ares_metrics_server_timeout (proved by process.metrics_timeout) */
  __CPROVER_assume(g_base > 0 && g_base <= (ch.maxtimeout ? ch.maxtimeout : 5000));
  size_t r = ares_calc_query_timeout(&q, &srv, &now);
  if (g_nsrv == 0) return;
  __CPROVER_assert(r >= g_base, "C06: an attempt waits no less than the base timeout");
  __CPROVER_assert(ch.maxtimeout == 0 || r <= ch.maxtimeout, "C06: an attempt waits no more than the configured maximum");
  __CPROVER_assert(q.try_count / g_nsrv == 0 ? r == g_base : 1, "C06: first pass over the servers uses the base timeout");
  __CPROVER_assert(r <= (size_t)0x7fffffff || r == g_base, "C06: back-off saturates at INT_MAX ms (deadline arithmetic cannot overflow)");
}
void h_timeadd(void)
{
  ares_timeval_t now; size_t ms = nondet_size();
  now.sec = nondet_i64(); now.usec = nondet_uint();
  __CPROVER_assume(now.sec >= 0 && now.sec < (1LL << 40) && now.usec < 1000000 && ms <= ((size_t)1 << 32)); /* ms: ares_calc_query_timeout() never exceeds max(INT_MAX, maxtimeout option (an int)) */
  ares_timeval_t o = now; timeadd(&now, ms);
  __CPROVER_assert(now.usec < 1000000, "C06/C07: deadline is normalised");
  /* deadline = now + ms exactly, stated without wide multiplications: ms = q*1000 + r */
  size_t q = ms / 1000, r = ms % 1000; unsigned int us = o.usec + (unsigned int)(r * 1000); unsigned int carry = us >= 1000000 ? 1 : 0;
  __CPROVER_assert(now.sec - o.sec == (long long)q + carry && now.usec == us - carry * 1000000u, "C07: deadline = now + timeout exactly");
  /* ares_timedout is the inverse test */
  ares_timeval_t t; t.sec = nondet_i64(); t.usec = nondet_uint(); __CPROVER_assume(t.sec >= 0 && t.sec < (1LL << 41) && t.usec < 1000000);
  ares_bool_t late = ares_timedout(&t, &now);
  __CPROVER_assert((late == ARES_TRUE) == (t.sec > now.sec || (t.sec == now.sec && t.usec >= now.usec)), "C07: a deadline counts as expired exactly when now >= deadline");
}
#else
/* ---- ares_timeout(): hint non-negative, normalised, not later than the earliest deadline or the caller's maximum ---- */
static ares_query_t g_q; static char node_tok; static _Bool g_has; static ares_timeval_t g_now;
ares_slist_node_t *ares_slist_node_first(const ares_slist_t *l) { return g_has ? (ares_slist_node_t *)&node_tok : NULL; }
void *ares_slist_node_val(ares_slist_node_t *n) { return &g_q; }
void ares_tvnow(ares_timeval_t *now) { *now = g_now; }
void h_timeout_hint(void)
{
  static ares_channel_t ch; struct timeval maxtv, tvbuf, *mp = nondet_bool() ? &maxtv : NULL;
  g_has = nondet_bool();
  g_now.sec = nondet_i64(); g_now.usec = nondet_uint(); g_q.timeout.sec = nondet_i64(); g_q.timeout.usec = nondet_uint();
  maxtv.tv_sec = nondet_i64(); maxtv.tv_usec = nondet_i64();
  __CPROVER_assume(g_now.sec >= 0 && g_now.sec < (1LL << 40) && g_now.usec < 1000000);
  __CPROVER_assume(g_q.timeout.sec >= 0 && g_q.timeout.sec < (1LL << 40) && g_q.timeout.usec < 1000000);
  __CPROVER_assume(maxtv.tv_sec >= 0 && maxtv.tv_sec < (1LL << 40) && maxtv.tv_usec >= 0 && maxtv.tv_usec < 1000000);
  struct timeval *r = ares_timeout_int(&ch, mp, &tvbuf);
  __CPROVER_assert(r == mp || r == &tvbuf, "C07: result is one of the two buffers");
  if (!g_has) { __CPROVER_assert(r == mp, "C07: no outstanding query: the caller's maximum is returned"); return; }
  __CPROVER_assert(r != NULL, "C07: outstanding query: a hint is returned");
  __CPROVER_assert(r->tv_sec >= 0 && r->tv_usec >= 0 && r->tv_usec < 1000000, "C07: hint never negative, normalised");
  /* expired deadline <=> hint is zero; otherwise now + hint == deadline (carry form, no wide multiplication) */
  _Bool expired = g_q.timeout.sec < g_now.sec || (g_q.timeout.sec == g_now.sec && g_q.timeout.usec < g_now.usec);
  long long rs = 0; long long ru = 0;             /* time to the earliest deadline */
  if (!expired) {
    /* the unique (rs, ru) with 0 <= ru < 10^6 and now + (rs, ru) == deadline */
    rs = nondet_i64(); ru = nondet_i64();
    __CPROVER_assume(ru >= 0 && ru < 1000000 && rs >= 0 && rs < (1LL << 41));
    long long su = (long long)g_now.usec + ru; long long c = su >= 1000000 ? 1 : 0;
    __CPROVER_assume(su - c * 1000000 == (long long)g_q.timeout.usec && g_now.sec + rs + c == g_q.timeout.sec);
  }
  _Bool hint_le_rem = r->tv_sec < rs || (r->tv_sec == rs && r->tv_usec <= ru);
  __CPROVER_assert(hint_le_rem, "C07: hint not later than the earliest pending deadline");
  __CPROVER_assert(mp != NULL || (r->tv_sec == rs && r->tv_usec == ru), "C07: without a caller maximum the hint is exactly the time to the earliest deadline");
  if (mp) __CPROVER_assert(r->tv_sec < maxtv.tv_sec || (r->tv_sec == maxtv.tv_sec && r->tv_usec <= maxtv.tv_usec), "C07: hint not later than the caller's maximum");
  if (mp) __CPROVER_assert(r == &tvbuf || !hint_le_rem || (maxtv.tv_sec < rs || (maxtv.tv_sec == rs && maxtv.tv_usec <= ru)), "C07: the smaller of the two is chosen");
}
#endif
