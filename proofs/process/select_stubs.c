/* plain C stand-ins for the callees of ares_send_query(); linked in after the real bodies were removed.
 * ASSUMED: each stand-in returns what its own proof establishes (ares_requeue_query: process.requeue_budget; ares_calc_query_timeout: process.calc_query_timeout; end_query: process.end_query; ares_fetch_connection: process.fetch_connection) and records its arguments in ghost variables */
#include "ares_private.h"
#include "select_ghost.h"
void *ares_slist_first_val(const ares_slist_t *l) { return &g_first; }
ares_status_t ares_open_connection(ares_conn_t **conn_out, ares_channel_t *channel, ares_server_t *server, ares_bool_t is_tcp) { __CPROVER_assert(server == g_fetch_server, "C09: the connection is opened to the chosen server"); if (g_open_status == ARES_SUCCESS) { *conn_out = &g_conn; g_wakeups++; /* the new socket is announced */ } return g_open_status; }
void ares_slist_node_destroy(ares_slist_node_t *n) { if (n) g_tmo_destroyed++; }
void ares_llist_node_destroy(ares_llist_node_t *n) { if (n) g_ll_destroyed++; }
ares_slist_node_t *ares_slist_insert(ares_slist_t *list, void *val) { return g_tmo_ok ? (ares_slist_node_t *)&tok_tmo : NULL; }
ares_llist_node_t *ares_llist_insert_last(ares_llist_t *list, void *val) { return g_ll_ok ? (ares_llist_node_t *)&tok_conn : NULL; }
ares_server_t *ares_random_server(ares_channel_t *channel) { return g_random; }
ares_conn_t *ares_fetch_connection(const ares_channel_t *channel, ares_server_t *server, const ares_query_t *query) { g_fetch_server = server; return g_fetched; }
ares_status_t ares_conn_query_write(ares_conn_t *conn, ares_query_t *query, const ares_timeval_t *now) { __CPROVER_assert(conn == &g_conn, "C10: the query is written to the fetched/opened connection"); if (g_write_status == ARES_SUCCESS && g_write_wakes && (conn->flags & ARES_CONN_FLAG_TCP)) g_wakeups++; return g_write_status; }
size_t ares_calc_query_timeout(const ares_query_t *query, const ares_server_t *server, const ares_timeval_t *now) { __CPROVER_assert(server == g_fetch_server, "C06: the timeout is computed for the chosen server"); return g_timeplus; }
void end_query(ares_channel_t *channel, ares_server_t *server, ares_query_t *query, ares_status_t status, const ares_dns_record_t *dnsrec) { g_ended++; g_end_status = status; }
ares_status_t ares_requeue_query(ares_query_t *query, const ares_timeval_t *now, ares_status_t status, ares_bool_t inc, const ares_dns_record_t *dnsrec, ares_array_t **requeue) { __CPROVER_assert(requeue == NULL, "direct requeue"); __CPROVER_assert(!g_query_released, "C01: the query being sent is not used after a completion callback could cancel and release it (a sibling completed while its connection was closed)"); g_requeued++; g_rq_status = status; g_rq_inc = inc; return ARES_SUCCESS; }
void server_increment_failures(ares_server_t *server, ares_bool_t used_tcp) { g_incfail++; g_incfail_at = ++g_order; }
void ares_probe_failed_server(ares_channel_t *channel, const ares_server_t *server, const ares_query_t *query) { g_probed++; }
void handle_conn_error(ares_conn_t *conn, ares_bool_t critical_failure, ares_status_t failure_status) { __CPROVER_assert(conn == &g_conn, "C10: the failing connection is the one written to"); g_connerr++; if (g_cb_may_cancel) g_query_released = 1; }
/* a released query is in no index */
void *ares_htable_szvp_get_direct(const ares_htable_szvp_t *h, size_t key) { return g_query_released ? NULL : (void *)g_sending; }
/* ASSUMED wake-up sources (each proved where it lives): registering a new socket announces it to the event loop (process.open_connection); a TCP write is handed to the event thread through the pending-write notification; a UDP write on an existing connection changes no socket interest and announces nothing (process.conn_flush_udp) */
ares_slist_node_t *ares_slist_node_first(const ares_slist_t *l) { return g_new_is_earliest ? (ares_slist_node_t *)&tok_tmo : (ares_slist_node_t *)&tok_other_tmo; }
void ares_event_thread_wake_channel(const ares_channel_t *channel) { g_wakeups++; }
void timeadd(ares_timeval_t *now, size_t millisecs) { __CPROVER_assert(millisecs == g_timeplus, "C07: the deadline uses the computed timeout"); g_timeadd++; }
