/* C05/C20/C01/C08/C09: acceptance of a response in the real process_answer() (src/lib/ares_process.c).
 * Loop-free once its callees are contracts (static callees, --replace-call-with-contract) or plain C stubs
 * (functions of other files); full-domain symbolic inputs => complete for the function. */
#include "nd.h"
#include <stdlib.h>
#include <string.h>
#include "src/lib/ares_process.c"

/* ---- ghost observation ---- */
int g_delivered, g_marked_good, g_cached, g_cache_calls, g_appended, g_requeue_calls, g_failed, g_incfail, g_rec_destroyed, g_conn_node_destroyed;
const ares_dns_record_t *g_delivered_rec; ares_query_t *g_delivered_q; ares_status_t g_delivered_status;
ares_server_t *g_append_server; ares_bool_t g_requeue_inc; ares_status_t g_requeue_status;
ares_query_t *g_q; _Bool g_found, g_same, g_cookie_ok, g_parse_ok, g_edns_issue, g_cache_ok, g_rewrite_ok; unsigned short g_flags; ares_dns_rcode_t g_rcode;
static char recobj, nodeobj;
#define REC ((ares_dns_record_t *)&recobj)
/* ASSUMED: plain C stubs for functions of other translation units: ares_dns_parse (codec cluster proves its contract), ares_htable_szvp_get_direct, record getters, ares_cookie_validate (proved in process.cookie_validate), ares_qcache_insert (cache cluster), ares_llist_node_destroy, ares_dns_record_destroy */
ares_status_t ares_dns_parse(const unsigned char *buf, size_t buf_len, unsigned int flags, ares_dns_record_t **dnsrec) { __CPROVER_assert(buf_len > 0, "C20: empty datagram never reaches the parser"); if (!g_parse_ok) { *dnsrec = NULL; return nondet_bool() ? ARES_EBADRESP : ARES_ENOMEM; } *dnsrec = REC; return ARES_SUCCESS; }
void *ares_htable_szvp_get_direct(const ares_htable_szvp_t *h, size_t key) { return g_found ? g_q : NULL; }
unsigned short ares_dns_record_get_id(const ares_dns_record_t *r) { return nondet_u16(); }
unsigned short ares_dns_record_get_flags(const ares_dns_record_t *r) { return g_flags; }
ares_dns_rcode_t ares_dns_record_get_rcode(const ares_dns_record_t *r) { return g_rcode; }
ares_status_t ares_cookie_validate(ares_query_t *q, const ares_dns_record_t *r, ares_conn_t *c, const ares_timeval_t *now, ares_array_t **rq) { return g_cookie_ok ? ARES_SUCCESS : ARES_EBADRESP; }
void ares_llist_node_destroy(ares_llist_node_t *n) { if (n != NULL) g_conn_node_destroyed++; }
void ares_dns_record_destroy(ares_dns_record_t *r) { if (r != NULL) { __CPROVER_assert(r == REC, "only the parsed response is destroyed"); g_rec_destroyed++; } }
ares_status_t ares_qcache_insert(ares_channel_t *ch, const ares_timeval_t *now, const ares_query_t *q, ares_dns_record_t *r) { g_cache_calls++; if (g_cache_ok) { g_cached++; return ARES_SUCCESS; } return nondet_bool() ? ARES_ENOTIMP : ARES_ENOMEM; }

/* ---- contracts standing in for the static callees of the same file ---- */
static ares_bool_t same_questions(const ares_query_t *query, const ares_dns_record_t *arec) __CPROVER_requires(1) __CPROVER_assigns() __CPROVER_ensures(__CPROVER_return_value == (g_same ? ARES_TRUE : ARES_FALSE));
static ares_bool_t issue_might_be_edns(const ares_dns_record_t *req, const ares_dns_record_t *rsp) __CPROVER_requires(1) __CPROVER_assigns() __CPROVER_ensures(__CPROVER_return_value == (g_edns_issue ? ARES_TRUE : ARES_FALSE));
static ares_status_t rewrite_without_edns(ares_query_t *query) __CPROVER_requires(1) __CPROVER_assigns() __CPROVER_ensures(__CPROVER_return_value == (g_rewrite_ok ? ARES_SUCCESS : ARES_ENOMEM));
static void end_query(ares_channel_t *channel, ares_server_t *server, ares_query_t *query, ares_status_t status, const ares_dns_record_t *dnsrec)
 __CPROVER_requires(1) __CPROVER_assigns(g_delivered, g_delivered_rec, g_delivered_q, g_delivered_status, g_failed)
 __CPROVER_ensures(dnsrec != NULL ? (g_delivered == __CPROVER_old(g_delivered) + 1 && g_delivered_rec == dnsrec && g_delivered_q == query && g_delivered_status == status && g_failed == __CPROVER_old(g_failed)) : (g_failed == __CPROVER_old(g_failed) + 1 && g_delivered == __CPROVER_old(g_delivered) && g_delivered_rec == __CPROVER_old(g_delivered_rec) && g_delivered_q == __CPROVER_old(g_delivered_q) && g_delivered_status == __CPROVER_old(g_delivered_status)));
static ares_status_t ares_append_requeue(ares_array_t **requeue, ares_query_t *query, ares_server_t *server) __CPROVER_requires(1) __CPROVER_assigns(g_appended, g_append_server) __CPROVER_ensures(g_appended == __CPROVER_old(g_appended) + 1 && g_append_server == server && (__CPROVER_return_value == ARES_SUCCESS || __CPROVER_return_value == ARES_ENOMEM));
ares_status_t ares_requeue_query(ares_query_t *query, const ares_timeval_t *now, ares_status_t status, ares_bool_t inc, const ares_dns_record_t *dnsrec, ares_array_t **requeue) __CPROVER_requires(1) __CPROVER_assigns(g_requeue_calls, g_requeue_inc, g_requeue_status) __CPROVER_ensures(g_requeue_calls == __CPROVER_old(g_requeue_calls) + 1 && g_requeue_inc == inc && g_requeue_status == status);
static void server_increment_failures(ares_server_t *server, ares_bool_t used_tcp) __CPROVER_requires(1) __CPROVER_assigns(g_incfail) __CPROVER_ensures(g_incfail == __CPROVER_old(g_incfail) + 1);
static void server_set_good(ares_server_t *server, ares_bool_t used_tcp) __CPROVER_requires(1) __CPROVER_assigns(g_marked_good) __CPROVER_ensures(g_marked_good == __CPROVER_old(g_marked_good) + 1);

void h_process_answer(void)
{
  static ares_channel_t ch; static ares_server_t srv; static ares_conn_t conn, other; static ares_query_t q; ares_timeval_t now; unsigned char pkt[16]; size_t alen = nondet_size(); ares_array_t *rq = NULL;
  conn.server = &srv; srv.channel = &ch; q.channel = &ch; g_q = &q;
  g_delivered = g_marked_good = g_cached = g_cache_calls = g_appended = g_requeue_calls = g_failed = g_incfail = g_rec_destroyed = g_conn_node_destroyed = 0;
  g_delivered_rec = NULL; g_delivered_q = NULL; g_append_server = NULL; g_delivered_status = ARES_SUCCESS; g_requeue_status = ARES_SUCCESS; g_requeue_inc = ARES_FALSE;
  q.conn = nondet_bool() ? &conn : &other;               /* the connection the query is currently assigned to */
  q.node_queries_to_conn = nondet_bool() ? (ares_llist_node_t *)&nodeobj : NULL; q.using_tcp = nondet_bool() ? ARES_TRUE : ARES_FALSE;
  conn.flags = (ares_conn_flags_t)nondet_uint(); ch.flags = nondet_uint();
  g_found = nondet_bool(); g_same = nondet_bool(); g_cookie_ok = nondet_bool(); g_parse_ok = nondet_bool(); g_edns_issue = nondet_bool(); g_cache_ok = nondet_bool(); g_rewrite_ok = nondet_bool();
  g_flags = nondet_u16(); g_rcode = (ares_dns_rcode_t)nondet_uint();
  __CPROVER_assume(alen <= 16);
  ares_bool_t tcp_before = q.using_tcp;
  ares_status_t rv = process_answer(&ch, pkt, alen, &conn, &now, &rq);
  _Bool used = g_delivered || g_marked_good || g_cached;
  _Bool udp_tc = (g_flags & ARES_FLAG_TC) && !(conn.flags & ARES_CONN_FLAG_TCP) && !(ch.flags & ARES_FLAG_IGNTC);
  _Bool bad_rcode = !(ch.flags & ARES_FLAG_NOCHECKRESP) && (g_rcode == ARES_RCODE_SERVFAIL || g_rcode == ARES_RCODE_NOTIMP || g_rcode == ARES_RCODE_REFUSED);
  _Bool matched = alen > 0 && g_parse_ok && g_found && g_same && g_cookie_ok;
  __CPROVER_assert(!used || (alen > 0 && g_parse_ok), "C05/C20: only a well-formed, non-empty message can answer");
  __CPROVER_assert(!used || g_found, "C05: the response id must select a live query");
  __CPROVER_assert(!used || g_same, "C05: the question must match exactly");
  __CPROVER_assert(!used || g_cookie_ok, "C05: the DNS-cookie checks must pass");
  __CPROVER_assert(!used || !udp_tc, "C20: a truncated UDP answer is not delivered");
  __CPROVER_assert(!used || !bad_rcode, "C06/C09: SERVFAIL/NOTIMP/REFUSED are not delivered unless NOCHECKRESP");
  __CPROVER_assert(!used || q.conn == &conn, "C05: the response arrived on the connection the query is currently assigned to");
  __CPROVER_assert(alen != 0 || (rv == ARES_SUCCESS && !used && g_appended + g_requeue_calls + g_failed + g_rec_destroyed + g_incfail == 0), "C20: a zero-length datagram is harmless");
  __CPROVER_assert(g_delivered + g_failed <= 1 && (!g_delivered || (g_delivered_q == &q && g_delivered_rec == REC && g_delivered_status == ARES_SUCCESS)), "C01: at most one completion per response, with the parsed record");
  __CPROVER_assert(!g_cached || g_delivered, "C08: only an answer that is delivered is cached");
  __CPROVER_assert(g_cache_calls <= 1 && (!g_cache_calls || g_delivered), "C08: the cache is offered only accepted answers");
  __CPROVER_assert(g_marked_good == g_delivered, "C09: a server is restored to full priority exactly by a delivered answer");
  /* ownership of the parsed record: destroyed exactly once unless the cache took it */
  __CPROVER_assert(g_rec_destroyed + g_cached == ((alen > 0 && g_parse_ok) ? 1 : 0), "C14/C01: the parsed response is released exactly once, or owned by the cache");
  if (matched && !g_edns_issue && udp_tc) __CPROVER_assert(q.using_tcp == ARES_TRUE && g_appended == 1 && g_append_server == NULL && !g_delivered && g_requeue_calls == 0, "C20: a truncated UDP answer is retried over TCP");
  if (matched && !g_edns_issue && !udp_tc && bad_rcode) __CPROVER_assert(g_incfail == 1 && g_requeue_calls == 1 && g_requeue_inc == ARES_TRUE && g_requeue_status != ARES_SUCCESS, "C06/C09: an error rcode demotes the server and consumes one try");
  if (matched && g_edns_issue) __CPROVER_assert(g_rewrite_ok ? (g_appended == 1 && g_append_server == &srv && g_requeue_calls == 0) : (g_failed == 1), "C06: the EDNS downgrade resends to the same server without consuming a try");
  if (matched && !g_edns_issue && !udp_tc && !bad_rcode) __CPROVER_assert(g_delivered == 1 && rv == ARES_SUCCESS, "C01/C06/C20: an authentic matching answer completes the request (also a truncated one that arrived over a stream: it is final, never resent)");
  ares_bool_t tcp0 = tcp_before;
  if (!matched) __CPROVER_assert(g_conn_node_destroyed == 0 && g_appended + g_requeue_calls + g_failed + g_incfail == 0 && q.using_tcp == tcp0, "C05: any other packet never supplies data to, or disturbs, any request");
}
