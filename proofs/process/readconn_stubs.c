/* plain C stand-ins for the callees of read_answers(); linked in after the real bodies were removed.
 * ASSUMED: process_answer() runs completion callbacks (process.answer_accept / process.end_query); a callback -- the library's own
 * search follow-up is enough -- may transmit on the connection under read, and a failed transmission closes and frees it
 * (process.send_query, process.conn_error, process.close_connection).  The buffer stand-ins only record that they were given the
 * buffer of a live connection. */
#include "ares_private.h"
#include "nd.h"
#include <stdlib.h>
#include "readconn_ghost.h"
#define LIVE(b) __CPROVER_assert(g_rc_alive && (void *)(b) == (void *)&g_rc_buf_tok, "C01: the connection under read (and its buffer) is not used after a completion callback closed and released it")
void ares_buf_tag(ares_buf_t *b) { LIVE(b); }
ares_status_t ares_buf_tag_rollback(ares_buf_t *b) { LIVE(b); return ARES_SUCCESS; }
ares_status_t ares_buf_tag_clear(ares_buf_t *b) { LIVE(b); return ARES_SUCCESS; }
ares_status_t ares_buf_fetch_be16(ares_buf_t *b, unsigned short *v) { LIVE(b); if (g_rc_frames >= 2 || nondet_bool()) return ARES_EBADRESP; *v = nondet_u16(); return ARES_SUCCESS; }
ares_status_t ares_buf_consume(ares_buf_t *b, size_t n) { LIVE(b); return nondet_bool() ? ARES_SUCCESS : ARES_EBADRESP; }
const unsigned char *ares_buf_tag_fetch(const ares_buf_t *b, size_t *len) { LIVE(b); *len = 2 + (nondet_size() % 6); return g_rc_data; }
ares_status_t process_answer(ares_channel_t *channel, const unsigned char *abuf, size_t alen, ares_conn_t *conn, const ares_timeval_t *now, ares_array_t **requeue)
{
  __CPROVER_assert(g_rc_alive && conn == g_rc_conn, "C01: an answer is processed for a live connection");
  g_rc_frames++;
  if (nondet_bool()) { g_rc_alive = 0; g_rc_closed++; free(g_rc_conn); }     /* a completion callback's follow-up transmission failed: connection closed and freed */
  return nondet_bool() ? ARES_SUCCESS : (nondet_bool() ? ARES_ENOMEM : ARES_EBADRESP);
}
void handle_conn_error(ares_conn_t *conn, ares_bool_t critical_failure, ares_status_t failure_status)
{
  __CPROVER_assert(g_rc_alive && conn == g_rc_conn, "C01/C10: a connection is closed once, while it is live");
  g_rc_alive = 0; g_rc_closed++; free(g_rc_conn);
}
/* the descriptor table knows live connections only; the descriptor number may have been reused by a NEW connection */
ares_conn_t *ares_conn_from_fd(const ares_channel_t *channel, ares_socket_t fd) { if (g_rc_alive) return g_rc_conn; return nondet_bool() ? NULL : &g_rc_other; }
size_t ares_array_len(const ares_array_t *a) { return 0; }
void ares_array_destroy(ares_array_t *a) { }
ares_status_t ares_send_query(ares_server_t *requested_server, ares_query_t *query, const ares_timeval_t *now) { return ARES_SUCCESS; }
