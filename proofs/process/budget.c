/* C06/C07: the retry-budget step (ares_requeue_query) and timer expiry (process_timeouts) of the real
 * src/lib/ares_process.c, with the timeout index as ghost state behind contracts. */
#include "nd.h"
#include <stdlib.h>
#include <string.h>
#include "src/lib/ares_process.c"

/* ---------------- ares_requeue_query: one step of the retry budget -------------------------------- */
int g_removed, g_ended, g_sent, g_appended; ares_status_t g_end_status; size_t g_nservers;
size_t ares_slist_len(const ares_slist_t *l) { return g_nservers; }
static void ares_query_remove_from_conn(ares_query_t *query) __CPROVER_requires(1) __CPROVER_assigns(g_removed) __CPROVER_ensures(g_removed == __CPROVER_old(g_removed) + 1);
static void end_query(ares_channel_t *channel, ares_server_t *server, ares_query_t *query, ares_status_t status, const ares_dns_record_t *dnsrec)
  __CPROVER_requires(g_removed > 0) __CPROVER_assigns(g_ended, g_end_status) __CPROVER_ensures(g_ended == __CPROVER_old(g_ended) + 1 && g_end_status == status);
static ares_status_t ares_append_requeue(ares_array_t **requeue, ares_query_t *query, ares_server_t *server)
  __CPROVER_requires(g_removed > 0 && server == NULL) __CPROVER_assigns(g_appended) __CPROVER_ensures(g_appended == __CPROVER_old(g_appended) + 1);
ares_status_t ares_send_query(ares_server_t *requested_server, ares_query_t *query, const ares_timeval_t *now)
  __CPROVER_requires(g_removed > 0 && requested_server == NULL) __CPROVER_assigns(g_sent) __CPROVER_ensures(g_sent == __CPROVER_old(g_sent) + 1);

void h_requeue(void)
{
  static ares_channel_t ch; static ares_query_t q; ares_timeval_t now; ares_array_t *rq = NULL; _Bool deferred = nondet_bool();
  q.channel = &ch; ch.tries = nondet_size(); g_nservers = nondet_size(); q.try_count = nondet_size(); q.no_retries = nondet_bool() ? ARES_TRUE : ARES_FALSE;
  q.error_status = (ares_status_t)nondet_uint(); ares_status_t st = (ares_status_t)nondet_uint(); ares_bool_t inc = nondet_bool() ? ARES_TRUE : ARES_FALSE;
  __CPROVER_assume(ch.tries <= 0x7fffffff && g_nservers <= 0xffff && q.try_count < ((size_t)1 << 60));   /* option ranges */
  g_removed = g_ended = g_sent = g_appended = 0; g_end_status = ARES_SUCCESS;
  size_t tc0 = q.try_count; ares_status_t es0 = q.error_status;
  ares_status_t rv = ares_requeue_query(&q, &now, st, inc, NULL, deferred ? &rq : NULL);
  __CPROVER_assert(q.try_count == tc0 + (inc ? 1 : 0), "C06: an attempt consumes exactly one try (protocol resends consume none)");
  __CPROVER_assert(g_removed == 1, "C06/C01: the query leaves its connection and the timeout index before anything else happens");
  _Bool budget_left = q.try_count < g_nservers * ch.tries && !q.no_retries;
  __CPROVER_assert((g_sent + g_appended == 1) == budget_left && g_sent + g_appended <= 1, "C06: a query is transmitted again only while tries remain (servers x tries), never with NORETRY");
  __CPROVER_assert((g_ended == 1) == !budget_left && g_ended <= 1, "C06: with the budget used up the query completes");
  if (!budget_left) __CPROVER_assert(g_end_status != ARES_SUCCESS && rv == ARES_ETIMEOUT && g_end_status == (st != ARES_SUCCESS ? st : (es0 != ARES_SUCCESS ? es0 : ARES_ETIMEOUT)), "C06: ... with a definite error status (the last failure, else timeout)");
  __CPROVER_assert(deferred ? g_sent == 0 : g_appended == 0, "C01: inside a read batch the resend is deferred, never sent directly");
}

/* ---------------- process_timeouts: every expired query is retried or failed ------------------------- */
size_t g_n;                 /* ghost: entries of the timeout index whose deadline is <= now */
static ares_query_t g_head; static ares_conn_t g_conn; static ares_server_t g_srv; static char node_tok; static ares_timeval_t g_now; int g_incfail; size_t g_timeouts_seen;
/* ASSUMED: the timeout index is a sorted container (ares_slist, bounded checks in proofs/slist): its first entry is the earliest deadline */
ares_slist_node_t *ares_slist_node_first(const ares_slist_t *list)
  __CPROVER_requires(1) __CPROVER_assigns(g_head.timeout, g_head.timeouts, g_head.using_tcp)
  __CPROVER_ensures(g_n > 0 ? (__CPROVER_return_value == (ares_slist_node_t *)&node_tok && (g_head.timeout.sec < g_now.sec || (g_head.timeout.sec == g_now.sec && g_head.timeout.usec <= g_now.usec)))
                            : (__CPROVER_return_value == NULL || (__CPROVER_return_value == (ares_slist_node_t *)&node_tok && (g_head.timeout.sec > g_now.sec || (g_head.timeout.sec == g_now.sec && g_head.timeout.usec > g_now.usec)))))
  __CPROVER_ensures(g_head.timeouts < 1000 && g_head.timeout.sec >= 0 && g_head.timeout.sec < (1LL << 41) && g_head.timeout.usec < 1000000);
void *ares_slist_node_val(ares_slist_node_t *node) __CPROVER_requires(node == (ares_slist_node_t *)&node_tok) __CPROVER_assigns() __CPROVER_ensures(__CPROVER_return_value == &g_head);
static void server_increment_failures(ares_server_t *server, ares_bool_t used_tcp) __CPROVER_requires(server == &g_srv) __CPROVER_assigns(g_incfail) __CPROVER_ensures(g_incfail == __CPROVER_old(g_incfail) + 1);
/* contract of ares_requeue_query as proved above + ares_send_query: the expired entry leaves the index; if it is re-sent
 * its new deadline is now + timeout with timeout >= 250 ms (process.metrics_timeout / calc_query_timeout), i.e. not expired */
ares_status_t ares_requeue_query(ares_query_t *query, const ares_timeval_t *now, ares_status_t status, ares_bool_t inc, const ares_dns_record_t *dnsrec, ares_array_t **requeue)
  __CPROVER_requires(query == &g_head && status == ARES_ETIMEOUT && inc == ARES_TRUE && dnsrec == NULL && requeue == NULL && g_n > 0)
  __CPROVER_assigns(g_n) __CPROVER_ensures(g_n == __CPROVER_old(g_n) - 1);

static ares_status_t process_timeouts(ares_channel_t *channel, const ares_timeval_t *now)
__CPROVER_requires(__CPROVER_is_fresh(channel, sizeof(*channel)) && __CPROVER_is_fresh(now, sizeof(*now)) && now->sec == g_now.sec && now->usec == g_now.usec && now->usec < 1000000 && now->sec >= 0 && now->sec < (1LL << 40))
__CPROVER_requires(g_head.conn == &g_conn && g_conn.server == &g_srv && g_incfail == 0 && g_n < 100000)
__CPROVER_assigns(g_n, g_incfail, g_head.timeout, g_head.timeouts, g_head.using_tcp)
/* statement C07: processing the channel at or after a deadline retries or fails the query: none is left expired */
__CPROVER_ensures(__CPROVER_return_value == ARES_SUCCESS ==> g_n == 0)
__CPROVER_ensures(__CPROVER_return_value == ARES_SUCCESS || __CPROVER_return_value == ARES_ENOMEM)
/* each expiry demotes the server that was asked (C09) */
__CPROVER_ensures(__CPROVER_return_value == ARES_SUCCESS ==> g_incfail == __CPROVER_old(g_n))
;
void h_process_timeouts(void) { ares_channel_t *c; const ares_timeval_t *now; process_timeouts(c, now); }
