/* ghost state shared between readconn.c (harness) and readconn_stubs.c (stand-ins) */
#ifndef READCONN_GHOST_H
#define READCONN_GHOST_H
#ifdef GHOST_DEFINE
#define G
#else
#define G extern
#endif
G ares_conn_t *g_rc_conn; G _Bool g_rc_alive; G int g_rc_frames, g_rc_closed; G char g_rc_buf_tok; G ares_conn_t g_rc_other; G unsigned char g_rc_data[8];
#endif
