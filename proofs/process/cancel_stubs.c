/* ares_destroy(): the server / connection teardown that follows the request loop is not part of this obligation */
#include "ares_private.h"
void ares_destroy_servers_state(ares_channel_t *channel) { }
