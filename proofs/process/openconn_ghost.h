#ifndef OPENCONN_GHOST_H
#define OPENCONN_GHOST_H
#ifdef GHOST_DEFINE
#define G
#else
#define G extern
#endif
G int g_opened, g_closed, g_in_list, g_in_table; G _Bool g_sockaddr_ok, g_connect_ok, g_selfip_ok;
#endif
