/* C10: which idle connections are closed -- ares_check_cleanup_conns() of the real src/lib/ares_close_sockets.c: a connection with
 * queries outstanding is never closed; an idle one is closed exactly when the channel does not keep connections open, or its server
 * has failures, or it is a datagram connection that has used up its per-socket query budget (it can never carry a query again, so
 * keeping it would leak the descriptor until the channel is destroyed). */
#include "nd.h"
#include <stdlib.h>
#include <string.h>
#include "src/lib/ares_close_sockets.c"
int cu_closed[2]; ares_conn_t cu_conn[2]; ares_status_t cu_status;
static ares_server_t g_srv; static char sn_tok, cn_tok[2], ql_tok[2]; static size_t g_nconn, g_nq[2];
ares_slist_node_t *ares_slist_node_first(const ares_slist_t *l) { return (ares_slist_node_t *)&sn_tok; }
ares_slist_node_t *ares_slist_node_next(ares_slist_node_t *n) { return NULL; }
void *ares_slist_node_val(ares_slist_node_t *n) { return &g_srv; }
ares_llist_node_t *ares_llist_node_first(ares_llist_t *l) { return g_nconn ? (ares_llist_node_t *)&cn_tok[0] : NULL; }
ares_llist_node_t *ares_llist_node_next(ares_llist_node_t *n) { size_t i = (size_t)((char *)n - cn_tok); __CPROVER_assert(cu_closed[i] == 0, "C10/C01: the successor is fetched before the connection (and its list node) may be released"); return i + 1 < g_nconn ? (ares_llist_node_t *)&cn_tok[i + 1] : NULL; }
void *ares_llist_node_val(ares_llist_node_t *n) { return &cu_conn[(char *)n - cn_tok]; }
size_t ares_llist_len(const ares_llist_t *l) { return g_nq[(const char *)l - ql_tok]; }
void h_cleanup_conns(void)
{
  static ares_channel_t ch; ch.flags = nondet_uint(); ch.udp_max_queries = nondet_size(); g_srv.consec_failures = nondet_size(); g_nconn = nondet_size() % 3;
  for (int i = 0; i < 2; i++) { cu_conn[i].server = &g_srv; cu_conn[i].flags = (ares_conn_flags_t)(nondet_uint() & 7u); cu_conn[i].total_queries = nondet_size(); cu_conn[i].queries_to_conn = (ares_llist_t *)&ql_tok[i]; g_nq[i] = nondet_size() % 3; cu_closed[i] = 0; }
  ares_check_cleanup_conns(&ch);
  for (size_t i = 0; i < 2; i++) {
    if (i >= g_nconn) { __CPROVER_assert(cu_closed[i] == 0, "only listed connections are looked at"); continue; }
    _Bool idle = g_nq[i] == 0;
    _Bool spent = !(cu_conn[i].flags & ARES_CONN_FLAG_TCP) && ch.udp_max_queries > 0 && cu_conn[i].total_queries >= ch.udp_max_queries;
    _Bool want = idle && (!(ch.flags & ARES_FLAG_STAYOPEN) || g_srv.consec_failures > 0 || spent);
    __CPROVER_assert(cu_closed[i] == (want ? 1 : 0), "C10: an idle connection is closed exactly when connections are not kept open, its server has failures, or it is a datagram connection whose per-socket query budget is used up; a connection with outstanding queries is never closed");
  }
}
