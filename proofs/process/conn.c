/* C05/C10/C20: the real src/lib/ares_conn.c + ares_socket.c + str/ares_buf.c: datagram source check, flushing the
 * output buffer under any partial-write pattern, and what the application is told to watch.
 * The socket layer is the user-replaceable function table (stubs with ghost state). */
#include "alloc.h"
#include <errno.h>
#include "src/lib/str/ares_buf.c"
#include "src/lib/ares_socket.c"
#include "src/lib/ares_conn.c"

/* ---- ghost socket layer -------------------------------------------------------------------------- */
static int g_send_calls, g_cb_calls, g_cb_read, g_cb_write; static const unsigned char *g_send_ptr[4]; static size_t g_send_len[4], g_send_ret[4];
static _Bool g_udp;
static unsigned char g_from[sizeof(struct sockaddr_storage)]; static ares_socklen_t g_fromlen; static _Bool g_recv_fail;
/* ASSUMED: socket function table behaves like BSD sockets: sendto accepts 1..len bytes or fails with errno; recvfrom returns <= len bytes and fills the source address */
static ares_ssize_t stub_sendto(ares_socket_t s, const void *data, size_t len, int flags, const struct sockaddr *sa, ares_socklen_t salen, void *ud)
{
  __CPROVER_assert(len == 0 || __CPROVER_r_ok(data, len), "C10/C20: bytes handed to the socket lie inside the output buffer");
  if (g_send_calls < 4) { g_send_ptr[g_send_calls] = data; g_send_len[g_send_calls] = len; }
  size_t n = nondet_size(); _Bool fail = nondet_bool();
  if (g_send_calls < 4) g_send_ret[g_send_calls] = fail ? 0 : n;
  g_send_calls++;
  if (fail || len == 0) { errno = nondet_bool() ? EAGAIN : ECONNRESET; return -1; }
  __CPROVER_assume(n >= 1 && n <= len && (!g_udp || n == len)); /* a datagram is sent whole or not at all */
  return (ares_ssize_t)n;
}
static ares_ssize_t stub_recvfrom(ares_socket_t s, void *data, size_t len, int flags, struct sockaddr *from, ares_socklen_t *fromlen, void *ud)
{
  if (g_recv_fail) { errno = EAGAIN; return -1; }
  if (from != NULL) { __CPROVER_assert(*fromlen >= sizeof(g_from), "source address buffer is a sockaddr_storage"); memcpy(from, g_from, sizeof(g_from)); *fromlen = g_fromlen; }
  size_t n = nondet_size(); __CPROVER_assume(n <= len); return (ares_ssize_t)n;
}
static void stub_state_cb(void *data, ares_socket_t fd, int readable, int writable) { g_cb_calls++; g_cb_read = readable; g_cb_write = writable; }
static ares_channel_t ch; static ares_server_t srv; static ares_conn_t conn;
static void base(void)
{
  conn.server = &srv; srv.channel = &ch; conn.fd = 7;
  ch.sock_funcs.asendto = stub_sendto; ch.sock_funcs.arecvfrom = stub_recvfrom; ch.sock_funcs.agetsockname = NULL;
  ch.sock_state_cb = nondet_bool() ? stub_state_cb : NULL;
  g_send_calls = g_cb_calls = 0; g_cb_read = g_cb_write = -1;
}

/* ---- C05: a UDP datagram is accepted only from the server's address ---------------------------------- */
void h_conn_read_udp(void)
{
  base(); conn.flags = ARES_CONN_FLAG_NONE; g_recv_fail = nondet_bool();
  for (size_t i = 0; i < sizeof(g_from); i++) g_from[i] = nondet_uchar();
  g_fromlen = (ares_socklen_t)nondet_uint();
  srv.addr.family = nondet_bool() ? AF_INET : AF_INET6;
  for (int i = 0; i < 16; i++) ((unsigned char *)&srv.addr.addr)[i] = nondet_uchar();
  unsigned char data[32]; size_t got = 0;
  ares_conn_err_t e = ares_conn_read(&conn, data, sizeof(data), &got);
  if (e == ARES_CONN_ERR_SUCCESS) {
    const struct sockaddr *sa = (const struct sockaddr *)g_from;
    __CPROVER_assert(sa->sa_family == srv.addr.family, "C05: datagram accepted only from the server's address family");
    if (srv.addr.family == AF_INET) __CPROVER_assert(memcmp(&((const struct sockaddr_in *)g_from)->sin_addr, &srv.addr.addr.addr4, 4) == 0, "C05: datagram accepted only from the server's IPv4 address (all 4 bytes)");
    else __CPROVER_assert(memcmp(&((const struct sockaddr_in6 *)g_from)->sin6_addr, &srv.addr.addr.addr6, 16) == 0, "C05: datagram accepted only from the server's IPv6 address (all 16 bytes)");
    __CPROVER_assert(got <= sizeof(data), "C02: read count within the buffer");
  }
}

/* ---- C20/C10: flushing ------------------------------------------------------------------------------ */
#define OB 24
static unsigned char g_ob[OB];
static void mk_out(size_t dl, size_t off)
{
  ares_buf_t *b = malloc(sizeof(*b)); __CPROVER_assume(b != NULL);
  b->alloc_buf = g_ob; b->alloc_buf_len = OB; b->data = g_ob; b->data_len = dl; b->offset = off; b->tag_offset = SIZE_MAX;
  for (size_t i = 0; i < OB; i++) g_ob[i] = nondet_uchar();
  conn.out_buf = b;
}
void h_conn_flush_tcp(void)
{
  base(); size_t dl = nondet_size(), off = nondet_size(); __CPROVER_assume(dl < OB && off <= dl); mk_out(dl, off);
  conn.flags = ARES_CONN_FLAG_TCP | (nondet_bool() ? ARES_CONN_FLAG_TFO : 0) | (nondet_bool() ? ARES_CONN_FLAG_TFO_INITIAL : 0);
  conn.state_flags = (ares_conn_state_flags_t)(nondet_uint() & 7);
  srv.addr.family = nondet_bool() ? AF_INET : AF_INET6;
  _Bool tfo_initial = (conn.flags & ARES_CONN_FLAG_TFO_INITIAL) != 0; unsigned st0 = conn.state_flags;
  ares_status_t rv = ares_conn_flush(&conn);
  size_t left = ares_buf_len(conn.out_buf);
  if (g_send_calls > 0) {
    __CPROVER_assert(g_send_calls == 1 && g_send_ptr[0] == g_ob + off && g_send_len[0] == dl - off, "C20: TCP hands the whole pending stream, from the first unsent byte, to one write");
    __CPROVER_assert(left == (dl - off) - g_send_ret[0], "C20: exactly the bytes the socket accepted are consumed (any partial-write pattern)");
    __CPROVER_assert((st0 & ARES_CONN_STATE_CONNECTED) || tfo_initial, "C10: no write on a TCP socket that is not connected (except the TFO first write)");
  } else __CPROVER_assert(left == dl - off, "C20: nothing consumed without a write");
  if (rv == ARES_SUCCESS) {
    _Bool want_write = left > 0 || tfo_initial;
    __CPROVER_assert(((conn.state_flags & ARES_CONN_STATE_WRITE) != 0) == want_write, "C10/C20: write interest is announced exactly while stream bytes are pending (or TFO awaits connect)");
    __CPROVER_assert((conn.state_flags & ARES_CONN_STATE_READ) != 0, "C10: read interest is always kept");
    if (ch.sock_state_cb != NULL && (st0 & ARES_CONN_STATE_CBFLAGS) != (conn.state_flags & ARES_CONN_STATE_CBFLAGS)) __CPROVER_assert(g_cb_calls >= 1 && g_cb_write == (want_write ? 1 : 0) && g_cb_read == 1, "C10: the application is told the interest that is now needed");
  }
  free(conn.out_buf);
}
/* UDP: one datagram per frame, in order, frame-aligned */
void h_conn_flush_udp(void)
{
  base(); size_t dl = nondet_size(), off = nondet_size(); __CPROVER_assume(dl < OB && off <= dl); mk_out(dl, off);
  conn.flags = ARES_CONN_FLAG_NONE; conn.state_flags = (ares_conn_state_flags_t)(nondet_uint() & 7); srv.addr.family = AF_INET;
  /* the queue holds whole frames [len16][len bytes] (invariant kept by ares_conn_query_write): zero, one or two of them */
#define RD(i) ((i) < OB ? (size_t)g_ob[(i)] : (size_t)0)
  size_t rem = dl - off; size_t l0 = (RD(off) << 8) | RD(off + 1);
  __CPROVER_assume(rem == 0 || (rem >= 2 && l0 >= 1 && l0 + 2 <= rem)); /* a DNS message is never empty */
  size_t o1 = off + 2 + l0; size_t rem1 = rem == 0 ? 0 : rem - 2 - l0; size_t l1 = (RD(o1) << 8) | RD(o1 + 1);
  __CPROVER_assume(rem1 == 0 || (rem1 >= 2 && l1 >= 1 && l1 + 2 == rem1));
  g_udp = 1;
  ares_status_t rv = ares_conn_flush(&conn);
  __CPROVER_assert(g_send_calls <= (rem == 0 ? 0 : (rem1 == 0 ? 1 : 2)), "C20: at most one write per queued message");
  if (g_send_calls >= 1) {
    __CPROVER_assert(g_send_ptr[0] == g_ob + off + 2 && g_send_len[0] == l0, "C20: a UDP write carries exactly one message body without the length prefix");
    __CPROVER_assert(ares_buf_len(conn.out_buf) == (g_send_ret[0] == 0 ? rem : (g_send_calls >= 2 && g_send_ret[1] > 0 ? 0 : rem1)), "C20: a sent datagram is removed together with its prefix, an unsent one stays queued whole");
  }
  if (g_send_calls >= 2) __CPROVER_assert(g_send_ptr[1] == g_ob + o1 + 2 && g_send_len[1] == l1, "C20: queued queries leave as correctly framed whole messages, in order");
  if (rv == ARES_SUCCESS) __CPROVER_assert(!(conn.state_flags & ARES_CONN_STATE_WRITE) && (conn.state_flags & ARES_CONN_STATE_READ), "C10: a UDP socket is watched for reading only");
  free(conn.out_buf);
}
