/* C10/C01: the real ares_close_connection() (src/lib/ares_close_sockets.c): unlink, requeue every query once,
 * announce "stop watching" before the descriptor is closed, close exactly once, no call on the socket afterwards. */
#include "nd.h"
#include <stdlib.h>
#include <string.h>
#include "src/lib/ares_close_sockets.c"
/* ASSUMED: ghost connection table / per-connection query list / socket layer behind plain C stand-ins; ares_requeue_query() detaches the query it is given from the connection (process.requeue_budget) */
static int g_order, g_unlinked_at, g_removed_at, g_announce_at, g_closed_at, g_freed_at, g_requeues, g_closes, g_bufs_destroyed, g_list_destroyed; static size_t g_nq; static ares_status_t g_rq_status; static ares_bool_t g_rq_inc; static char node_tok, q_tok[3]; static ares_conn_t *g_conn; static unsigned g_announced;
void *ares_htable_asvp_get_direct(const ares_htable_asvp_t *h, ares_socket_t key) { __CPROVER_assert(key == 7, "C10: the table is searched for this connection's descriptor"); return &node_tok; }
void *ares_llist_node_claim(ares_llist_node_t *n) { g_unlinked_at = ++g_order; return NULL; }
ares_bool_t ares_htable_asvp_remove(ares_htable_asvp_t *h, ares_socket_t key) { __CPROVER_assert(key == 7, "C10: the table entry of this descriptor is removed"); g_removed_at = ++g_order; return ARES_TRUE; }
void ares_buf_destroy(ares_buf_t *b) { g_bufs_destroyed++; }
void ares_tvnow(ares_timeval_t *now) { now->sec = 1; now->usec = 0; }
void *ares_llist_first_val(ares_llist_t *l) { return g_nq ? &q_tok[g_nq - 1] : NULL; }
ares_status_t ares_requeue_query(ares_query_t *query, const ares_timeval_t *now, ares_status_t status, ares_bool_t inc, const ares_dns_record_t *dnsrec, ares_array_t **requeue)
{ __CPROVER_assert(g_closed_at == 0 && g_freed_at == 0, "C01/C10: queries are moved away while the connection object is still alive"); __CPROVER_assert(requeue == NULL && dnsrec == NULL, "direct requeue"); g_requeues++; g_rq_status = status; g_rq_inc = inc; g_nq--; return ARES_SUCCESS; }
void ares_llist_destroy(ares_llist_t *l) { __CPROVER_assert(g_nq == 0, "C10: the query list is destroyed only when empty"); g_list_destroyed++; }
void ares_conn_sock_state_cb_update(ares_conn_t *conn, ares_conn_state_flags_t flags) { __CPROVER_assert(g_closed_at == 0, "C10: no notification about a closed socket"); g_announce_at = ++g_order; g_announced = flags; }
void ares_socket_close(ares_channel_t *channel, ares_socket_t s) { __CPROVER_assert(s == 7, "C10: the connection's descriptor is the one closed"); g_closes++; g_closed_at = ++g_order; }
void ares_free(void *p) { if (p == (void *)g_conn) { g_freed_at = ++g_order; } free(p); }
void h_close_connection(void)
{
  static ares_channel_t ch; static ares_server_t srv; ares_conn_t *c = malloc(sizeof(*c)); __CPROVER_assume(c != NULL); memset(c, 0, sizeof(*c)); g_conn = c;
  c->server = &srv; srv.channel = &ch; c->fd = 7; c->flags = (ares_conn_flags_t)nondet_uint(); srv.tcp_conn = nondet_bool() ? c : NULL; g_nq = nondet_size() % 3; size_t nq0 = g_nq;
  ares_status_t st = (ares_status_t)(nondet_uint() % 26); _Bool tcp = (c->flags & ARES_CONN_FLAG_TCP) != 0;
  g_order = g_unlinked_at = g_removed_at = g_announce_at = g_closed_at = g_freed_at = g_requeues = g_closes = g_bufs_destroyed = g_list_destroyed = 0;
  ares_close_connection(c, st);
  __CPROVER_assert(g_closes == 1, "C10: the socket is closed exactly once");
  __CPROVER_assert(g_unlinked_at > 0 && g_removed_at > 0 && g_removed_at < g_closed_at, "C10: the connection leaves the server list and the descriptor table before its socket is closed");
  __CPROVER_assert(g_announce_at > 0 && g_announce_at < g_closed_at && g_announced == ARES_CONN_STATE_NONE, "C10: the application is told to stop watching BEFORE the descriptor is closed");
  __CPROVER_assert((size_t)g_requeues == nq0 && (nq0 == 0 || (g_rq_status == st && g_rq_inc == ARES_TRUE)), "C01/C06: every query on the connection is requeued exactly once (consuming a try, with the failure status)");
  __CPROVER_assert(g_freed_at == g_order && g_closed_at == g_order - 1, "C10: nothing touches the socket or the connection after close / release");
  __CPROVER_assert(g_bufs_destroyed == 2 && g_list_destroyed == 1, "C10: both buffers and the query list are released");
  if (tcp) __CPROVER_assert(srv.tcp_conn == NULL, "C10: the server forgets its TCP connection");
}
