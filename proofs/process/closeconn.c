/* C10/C01: the real ares_close_connection() (src/lib/ares_close_sockets.c): unlink, requeue every query once,
 * announce "stop watching" before the descriptor is closed, close exactly once, no call on the socket afterwards. */
#include "nd.h"
#include <stdlib.h>
#include <string.h>
#include "src/lib/ares_close_sockets.c"
/* ASSUMED: ghost connection table / per-connection query list / socket layer behind plain C stand-ins; ares_requeue_query() detaches the query it is given from the connection (process.requeue_budget) */
static int g_order, g_unlinked_at, g_removed_at, g_announce_at, g_closed_at, g_freed_at, g_requeues, g_closes, g_bufs_destroyed, g_list_destroyed; static size_t g_nq; static ares_status_t g_rq_status; static ares_bool_t g_rq_inc; static char node_tok, q_tok[3]; static ares_conn_t *g_conn; static unsigned g_announced;
void *ares_htable_asvp_get_direct(const ares_htable_asvp_t *h, ares_socket_t key) { __CPROVER_assert(key == 7, "C10: the table is searched for this connection's descriptor"); return &node_tok; }
void *ares_llist_node_claim(ares_llist_node_t *n) { g_unlinked_at = ++g_order; return NULL; }
ares_bool_t ares_htable_asvp_remove(ares_htable_asvp_t *h, ares_socket_t key) { __CPROVER_assert(key == 7, "C10: the table entry of this descriptor is removed"); g_removed_at = ++g_order; return ARES_TRUE; }
void ares_buf_destroy(ares_buf_t *b) { g_bufs_destroyed++; }
void ares_tvnow(ares_timeval_t *now) { now->sec = 1; now->usec = 0; }
/* the connection's query list: <= 2 nodes with liveness; a node dies when its query is detached (requeued elsewhere, completed or cancelled) */
static _Bool n_live[2]; static char qn_tok[2]; static int g_cancelled;
static size_t live_cnt(void) { return (size_t)n_live[0] + (size_t)n_live[1]; }
void *ares_llist_first_val(ares_llist_t *l) { return n_live[0] ? &q_tok[0] : (n_live[1] ? &q_tok[1] : NULL); }
ares_llist_node_t *ares_llist_node_first(ares_llist_t *l) { return n_live[0] ? (ares_llist_node_t *)&qn_tok[0] : (n_live[1] ? (ares_llist_node_t *)&qn_tok[1] : NULL); }
ares_llist_node_t *ares_llist_node_next(ares_llist_node_t *n) { size_t i = (size_t)((char *)n - qn_tok); __CPROVER_assert(i < 2 && n_live[i], "C01: a query-list node is not used after its query was detached or released"); return (i == 0 && n_live[1]) ? (ares_llist_node_t *)&qn_tok[1] : NULL; }
void *ares_llist_node_val(ares_llist_node_t *n) { size_t i = (size_t)((char *)n - qn_tok); __CPROVER_assert(i < 2 && n_live[i], "C01: a query-list node is not used after its query was detached or released"); return &q_tok[i]; }
ares_status_t ares_requeue_query(ares_query_t *query, const ares_timeval_t *now, ares_status_t status, ares_bool_t inc, const ares_dns_record_t *dnsrec, ares_array_t **requeue)
{
  __CPROVER_assert(g_closed_at == 0 && g_freed_at == 0, "C01/C10: queries are moved away while the connection object is still alive"); __CPROVER_assert(requeue == NULL && dnsrec == NULL, "direct requeue");
  size_t i = (size_t)((char *)query - q_tok); __CPROVER_assert(i < 2 && n_live[i], "C01: only a query that is still on the connection is requeued (never a released one)");
  g_requeues++; g_rq_status = status; g_rq_inc = inc; n_live[i] = 0;      /* ares_query_remove_from_conn() */
  /* out of tries: the query completes; its callback may cancel the channel, which completes and releases the OTHER queries of this connection too */
  if (nondet_bool()) for (size_t j = 0; j < 2; j++) if (j != i && n_live[j]) { n_live[j] = 0; g_cancelled++; }
  return ARES_SUCCESS;
}
void ares_llist_destroy(ares_llist_t *l) { __CPROVER_assert(live_cnt() == 0, "C10: the query list is destroyed only when empty"); g_list_destroyed++; }
void ares_conn_sock_state_cb_update(ares_conn_t *conn, ares_conn_state_flags_t flags) { __CPROVER_assert(g_closed_at == 0, "C10: no notification about a closed socket"); g_announce_at = ++g_order; g_announced = flags; }
void ares_socket_close(ares_channel_t *channel, ares_socket_t s) { __CPROVER_assert(s == 7, "C10: the connection's descriptor is the one closed"); g_closes++; g_closed_at = ++g_order; }
void ares_free(void *p) { if (p == (void *)g_conn) { g_freed_at = ++g_order; } free(p); }
void h_close_connection(void)
{
  static ares_channel_t ch; static ares_server_t srv; ares_conn_t *c = malloc(sizeof(*c)); __CPROVER_assume(c != NULL); memset(c, 0, sizeof(*c)); g_conn = c;
  c->server = &srv; srv.channel = &ch; c->fd = 7; c->flags = (ares_conn_flags_t)nondet_uint(); srv.tcp_conn = nondet_bool() ? c : NULL; g_nq = nondet_size() % 3; size_t nq0 = g_nq; n_live[0] = nq0 >= 1; n_live[1] = nq0 >= 2; g_cancelled = 0;
  ares_status_t st = (ares_status_t)(nondet_uint() % 26); _Bool tcp = (c->flags & ARES_CONN_FLAG_TCP) != 0;
  g_order = g_unlinked_at = g_removed_at = g_announce_at = g_closed_at = g_freed_at = g_requeues = g_closes = g_bufs_destroyed = g_list_destroyed = 0;
  ares_close_connection(c, st);
  __CPROVER_assert(g_closes == 1, "C10: the socket is closed exactly once");
  __CPROVER_assert(g_unlinked_at > 0 && g_removed_at > 0 && g_removed_at < g_closed_at, "C10: the connection leaves the server list and the descriptor table before its socket is closed");
  __CPROVER_assert(g_announce_at > 0 && g_announce_at < g_closed_at && g_announced == ARES_CONN_STATE_NONE, "C10: the application is told to stop watching BEFORE the descriptor is closed");
  __CPROVER_assert((size_t)(g_requeues + g_cancelled) == nq0 && live_cnt() == 0 && (g_requeues == 0 || (g_rq_status == st && g_rq_inc == ARES_TRUE)), "C01/C06: every query on the connection is dealt with exactly once: requeued (consuming a try, with the failure status) or cancelled by a sibling's callback");
  __CPROVER_assert(g_freed_at == g_order && g_closed_at == g_order - 1, "C10: nothing touches the socket or the connection after close / release");
  __CPROVER_assert(g_bufs_destroyed == 2 && g_list_destroyed == 1, "C10: both buffers and the query list are released");
  if (tcp) __CPROVER_assert(srv.tcp_conn == NULL, "C10: the server forgets its TCP connection");
}
