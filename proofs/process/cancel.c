/* C01: ares_cancel() / ares_destroy() (the real src/lib/ares_cancel.c / ares_destroy.c) complete every outstanding request
 * exactly once and release it exactly once, whatever the completion callbacks do.  The callback is ADVERSARIAL within what the
 * public API allows: it may start a new request whose transmission fails, which closes a connection and completes -- through the
 * normal end_query() path -- every request still linked to that connection.
 * ASSUMED: the list primitives are modelled over two token nodes with liveness flags (proved separately in proofs/llist);
 * ares_free_query() detaches a request from every index and releases it (process.end_query). */
#include "nd.h"
#include <stdlib.h>
#include <string.h>
#ifdef T_DESTROY
#include "src/lib/ares_destroy.c"
#define STATUS ARES_EDESTRUCTION
#else
#include "src/lib/ares_cancel.c"
#define STATUS ARES_ECANCELLED
#endif
#define NQ 2
static ares_query_t *Q[NQ]; static char node_tok[NQ], list_tok[2]; static _Bool n_alive[NQ], in_conn[NQ], freed[NQ], present[NQ]; static int n_list[NQ], cb_count[NQ], cb_status_ok[NQ]; static int g_lock, g_created, g_list_destroyed[2];
static int nidx(const ares_llist_node_t *n) { return (const char *)n == &node_tok[0] ? 0 : 1; }
static int lidx(const ares_llist_t *l) { __CPROVER_assert((const char *)l == &list_tok[0] || (const char *)l == &list_tok[1], "C01: a live list"); return (const char *)l == &list_tok[0] ? 0 : 1; }
size_t ares_llist_len(const ares_llist_t *l) { if (l == NULL) return 0; int li = lidx(l); size_t c = 0; for (int k = 0; k < NQ; k++) if (n_alive[k] && n_list[k] == li) c++; return c; }
ares_llist_t *ares_llist_create(ares_llist_destructor_t d) { if (g_created || nondet_bool()) return NULL; g_created = 1; return (ares_llist_t *)&list_tok[1]; }
ares_llist_node_t *ares_llist_node_first(ares_llist_t *l) { if (l == NULL) return NULL; int li = lidx(l); for (int k = 0; k < NQ; k++) if (n_alive[k] && n_list[k] == li) return (ares_llist_node_t *)&node_tok[k]; return NULL; }
ares_llist_node_t *ares_llist_node_next(ares_llist_node_t *n) { if (n == NULL) return NULL; int i = nidx(n); __CPROVER_assert(n_alive[i], "C01: a list node is not used after the request it belongs to was released"); for (int k = i + 1; k < NQ; k++) if (n_alive[k] && n_list[k] == n_list[i]) return (ares_llist_node_t *)&node_tok[k]; return NULL; }
void *ares_llist_node_claim(ares_llist_node_t *n) { if (n == NULL) return NULL; int i = nidx(n); __CPROVER_assert(n_alive[i], "C01: a list node is not used after the request it belongs to was released"); n_alive[i] = 0; return Q[i]; }
void *ares_llist_node_val(ares_llist_node_t *n) { if (n == NULL) return NULL; int i = nidx(n); __CPROVER_assert(n_alive[i], "C01: a list node is not used after the request it belongs to was released"); return Q[i]; }
void ares_llist_node_destroy(ares_llist_node_t *n) { if (n == NULL) return; int i = nidx(n); __CPROVER_assert(n_alive[i], "C01: a list node is released once"); n_alive[i] = 0; }
void ares_llist_destroy(ares_llist_t *l) { if (l == NULL) return; int li = lidx(l); g_list_destroyed[li]++; for (int k = 0; k < NQ; k++) __CPROVER_assert(!(n_alive[k] && n_list[k] == li), "C01: no request is left behind on a destroyed list"); }
static int qidx(const ares_query_t *q) { return q == Q[0] ? 0 : 1; }
/* what ares_free_query() / end_query() do to the indexes (process.end_query) */
static void detach_and_release(int k)
{
  __CPROVER_assert(!freed[k], "C01: a request is released exactly once");
  if (Q[k]->node_all_queries != NULL) { ares_llist_node_destroy(Q[k]->node_all_queries); Q[k]->node_all_queries = NULL; }
  in_conn[k] = 0; freed[k] = 1; free(Q[k]);
}
void ares_free_query(ares_query_t *q) { __CPROVER_assert(q == Q[0] || q == Q[1], "a request of this channel"); detach_and_release(qidx(q)); }
static void user_cb(void *arg, ares_status_t status, size_t timeouts, const ares_dns_record_t *dnsrec)
{
  int k = (int)(size_t)arg; cb_count[k]++; if (status == STATUS) cb_status_ok[k] = 1;
  /* the application starts a new request from inside the callback; its transmission fails, the connection is closed, and every
   * request still linked to that connection runs out of tries and completes through end_query() */
  if (nondet_bool()) for (int j = 0; j < NQ; j++) if (present[j] && in_conn[j] && !freed[j] && nondet_bool()) { cb_count[j]++; detach_and_release(j); }
}
void ares_channel_lock(const ares_channel_t *c) { g_lock++; }
void ares_channel_unlock(const ares_channel_t *c) { g_lock--; }
void ares_check_cleanup_conns(const ares_channel_t *c) { }
void ares_queue_notify_empty(ares_channel_t *c) { }
void h_cancel_reentry(void)
{
  static ares_channel_t ch; memset(&ch, 0, sizeof(ch)); ch.all_queries = (ares_llist_t *)&list_tok[0]; g_lock = 0; g_created = 0;
  for (int k = 0; k < NQ; k++) {
    present[k] = nondet_bool(); n_alive[k] = present[k]; n_list[k] = 0; in_conn[k] = nondet_bool(); freed[k] = 0; cb_count[k] = 0; cb_status_ok[k] = 0;
    Q[k] = malloc(sizeof(ares_query_t)); __CPROVER_assume(Q[k] != NULL); memset(Q[k], 0, sizeof(ares_query_t));
    Q[k]->channel = &ch; Q[k]->callback = user_cb; Q[k]->arg = (void *)(size_t)k; Q[k]->node_all_queries = present[k] ? (ares_llist_node_t *)&node_tok[k] : NULL;
  }
#ifdef T_DESTROY
  ares_destroy(&ch);
#else
  ares_cancel(&ch);
  if (present[0] || present[1]) { if (!g_created) return; /* out of memory: nothing is cancelled (the function has no way to report it) */ }
  __CPROVER_assert(g_lock == 0, "C11: the channel lock is released");
#endif
  for (int k = 0; k < NQ; k++) if (present[k]) {
    __CPROVER_assert(cb_count[k] == 1, "C01: every outstanding request is completed exactly once by cancel/destroy, whatever its callback or a sibling's callback does");
    __CPROVER_assert(freed[k], "C01: every outstanding request is released by cancel/destroy");
  }
}
