/* C01: ownership protocol of the real end_query()/ares_free_query()/ares_detach_query() (src/lib/ares_process.c)
 * against an ADVERSARIAL completion callback: the callback stands for "anything the public API lets a callback do",
 * in particular a re-entrant ares_cancel() that completes and releases every request still reachable. */
#include "nd.h"
#include <stdlib.h>
#include <string.h>
#include "src/lib/ares_process.c"

/* ---- ghost index model ---------------------------------------------------------------------------- */
/* ASSUMED: the four indexes (all_queries, queries_by_qid, queries_by_timeout, per-connection list) are modelled by membership flags of THE query behind plain C stubs of ares_llist_node_destroy / ares_slist_node_destroy / ares_htable_szvp_remove */
static char tok_all, tok_conn, tok_tmo;
static _Bool g_in_all, g_in_conn, g_in_tmo, g_in_qid; static int g_cb_count, g_notify; static ares_query_t *g_q; static _Bool g_freed;
void ares_slist_node_destroy(ares_slist_node_t *n) { if (!n) return; __CPROVER_assert(n == (void *)&tok_tmo && g_in_tmo, "C01: timeout-index node is live when removed"); g_in_tmo = 0; }
void ares_llist_node_destroy(ares_llist_node_t *n)
{
  if (!n) return;
  if (n == (void *)&tok_all) { __CPROVER_assert(g_in_all, "C01: all_queries node is live when removed"); g_in_all = 0; }
  else { __CPROVER_assert(n == (void *)&tok_conn && g_in_conn, "C01: connection-list node is live when removed"); g_in_conn = 0; }
}
ares_bool_t ares_htable_szvp_remove(ares_htable_szvp_t *h, size_t key) { g_in_qid = 0; return ARES_TRUE; }
void ares_dns_record_destroy(ares_dns_record_t *r) {}
void ares_free(void *p) { if (p == (void *)g_q) { __CPROVER_assert(!g_freed, "C01: a request is released exactly once"); g_freed = 1; } free(p); }
void ares_metrics_record(const ares_query_t *query, ares_server_t *server, ares_status_t status, const ares_dns_record_t *dnsrec) {}
void ares_queue_notify_empty(ares_channel_t *channel) { g_notify++; }

/* ---- adversarial user callback ---------------------------------------------------------------------- */
static void user_cb(void *arg, ares_status_t status, size_t timeouts, const ares_dns_record_t *dnsrec)
{
  g_cb_count++;
  if (nondet_bool() && g_in_all) {
    /* re-entrant ares_cancel(): every query reachable through all_queries gets ARES_ECANCELLED and is released */
    ares_query_t *q = g_q;
    g_in_all = 0; q->node_all_queries = NULL;
    g_cb_count++;                       /* its callback fires with ARES_ECANCELLED */
    ares_free_query(q);                 /* real code, as ares_cancel() does */
  }
}
ares_callback_dnsrec g_keep = user_cb;

void h_end_query(void)
{
  static ares_channel_t ch; static ares_server_t srv; ares_status_t st = (ares_status_t)nondet_uint();
  ares_query_t *q = malloc(sizeof(*q)); __CPROVER_assume(q != NULL);
  memset(q, 0, sizeof(*q));
  g_q = q; q->channel = &ch; q->callback = user_cb; q->arg = NULL;
  g_in_all = 1; g_in_qid = 1; g_in_conn = nondet_bool(); g_in_tmo = g_in_conn; g_cb_count = 0; g_freed = 0; g_notify = 0;
  q->node_all_queries = (void *)&tok_all;
  q->node_queries_to_conn = g_in_conn ? (void *)&tok_conn : NULL;
  q->node_queries_by_timeout = g_in_tmo ? (void *)&tok_tmo : NULL;
  srv.probe_pending = ARES_TRUE;
  end_query(&ch, nondet_bool() ? &srv : NULL, q, st, NULL);
  __CPROVER_assert(g_cb_count == 1, "C01: the completion callback fires exactly once, whatever the callback itself does");
  __CPROVER_assert(!g_in_all && !g_in_qid && !g_in_conn && !g_in_tmo, "C01: the request has left all four indexes");
  __CPROVER_assert(g_freed, "C01: the request is released");
  __CPROVER_assert(g_notify == 1, "C11: the empty-queue waiters are notified after every completion");
}
