/* C10/C05: which connection carries a query -- ares_fetch_connection() of the real src/lib/ares_process.c (loop free, complete):
 * a stream query goes on the server's stream connection (or none); a datagram query reuses the server's first connection only if
 * that is a datagram connection which has carried FEWER queries than the configured per-socket limit -- ares_send_query() charges
 * the query to the connection afterwards, so a connection never carries more than the limit. */
#include "nd.h"
#include <stdlib.h>
#include <string.h>
#include "src/lib/ares_process.c"
static char node_tok; static ares_conn_t g_first, g_tcp; static _Bool g_have_first;
ares_llist_node_t *ares_llist_node_first(ares_llist_t *l) { return g_have_first ? (ares_llist_node_t *)&node_tok : NULL; }
void *ares_llist_node_val(ares_llist_node_t *n) { return n ? &g_first : NULL; }
void h_fetch_connection(void)
{
  static ares_channel_t ch; static ares_server_t srv; static ares_query_t q; ch.udp_max_queries = nondet_size(); q.using_tcp = nondet_bool() ? ARES_TRUE : ARES_FALSE; srv.tcp_conn = nondet_bool() ? &g_tcp : NULL;
  g_have_first = nondet_bool(); g_first.flags = (ares_conn_flags_t)(nondet_uint() & 7u); g_first.total_queries = nondet_size();
  ares_conn_t *c = ares_fetch_connection(&ch, &srv, &q);
  if (q.using_tcp) { __CPROVER_assert(c == srv.tcp_conn, "C10: a stream query uses the server's stream connection, or a new one"); return; }
  __CPROVER_assert(c == NULL || c == &g_first, "C10: a datagram query reuses the server's first connection or opens a new one");
  if (c != NULL) {
    __CPROVER_assert(g_have_first && !(g_first.flags & ARES_CONN_FLAG_TCP), "C10: a datagram query is never written to a stream connection");
    __CPROVER_assert(ch.udp_max_queries == 0 || g_first.total_queries < ch.udp_max_queries, "C10: a datagram connection that has carried the configured number of queries is not handed out again (the query is charged to it after this choice)");
  } else if (g_have_first && !(g_first.flags & ARES_CONN_FLAG_TCP)) {
    __CPROVER_assert(ch.udp_max_queries > 0 && g_first.total_queries >= ch.udp_max_queries, "C10: a datagram connection below its limit is reused (no needless sockets)");
  }
}
