/* C18: ares_parse_ns_reply() (real src/lib/legacy/ares_parse_ptr_reply.c) agrees with the record API: the host entry is named after
 * the question, its alias list holds exactly the Internet-class NS answers' server names, in answer order, NULL terminated;
 * no data when there is none; nothing handed out on error and the partial entry released once. */
#include "nd.h"
#include <stdlib.h>
#include <string.h>
/* the two memset calls of this file zero a struct hostent and an array of char pointers; CBMC's byte-wise memset of a symbolic size
 * does not yield NULL pointers, so they are modelled exactly, with the shapes asserted */
#include <netdb.h>
static void *ns_memset(void *dst, int c, size_t n)
{
  __CPROVER_assert(c == 0 && n % sizeof(char *) == 0, "memset model: zeroing whole pointers");
  if (n == sizeof(struct hostent)) { struct hostent z = { 0 }; *(struct hostent *)dst = z; return dst; }
  for (size_t i = 0; i < n / sizeof(char *); i++) ((char **)dst)[i] = NULL;
  return dst;
}
static void *ns_memcpy(void *d, const void *s0, size_t n) { for (size_t i = 0; i < 16; i++) if (i < n) ((unsigned char *)d)[i] = ((const unsigned char *)s0)[i]; __CPROVER_assert(n <= 16, "address copy of at most 16 bytes"); return d; }
#define memcpy ns_memcpy
#define memset ns_memset
#include "src/lib/legacy/ares_parse_ptr_reply.c"
#undef memset
#undef memcpy
#define AMAX 3
/* ASSUMED: ghost answer section behind ares_dns_parse()/record getters; ares_strdup() returns a per-string token or fails; ares_free_hostent() releases a (possibly partial) entry */
static char rec_tok, qname, qdup; static _Bool g_parse_ok, g_oom, g_qget_ok; static ares_status_t g_parse_err; static size_t g_an; static ares_dns_class_t g_cls[AMAX]; static ares_dns_rec_type_t g_typ[AMAX]; static char g_rr[AMAX], g_name[AMAX], g_dup[AMAX];
static int g_rec_destroyed, g_he_freed;
ares_status_t ares_dns_parse(const unsigned char *buf, size_t len, unsigned int flags, ares_dns_record_t **rec) { if (!g_parse_ok) { *rec = NULL; return g_parse_err; } *rec = (ares_dns_record_t *)&rec_tok; return ARES_SUCCESS; }
void ares_dns_record_destroy(ares_dns_record_t *r) { if (r) g_rec_destroyed++; }
size_t ares_dns_record_rr_cnt(const ares_dns_record_t *r, ares_dns_section_t s) { __CPROVER_assert(s == ARES_SECTION_ANSWER, "C18: only the answer section is converted"); return g_an; }
ares_dns_rr_t *ares_dns_record_rr_get(ares_dns_record_t *r, ares_dns_section_t s, size_t i) { __CPROVER_assert(i < g_an, "C18: answer index in range"); return (ares_dns_rr_t *)&g_rr[i]; }
const ares_dns_rr_t *ares_dns_record_rr_get_const(const ares_dns_record_t *r, ares_dns_section_t s, size_t i) { __CPROVER_assert(i < g_an, "C18: answer index in range"); return (const ares_dns_rr_t *)&g_rr[i]; }
ares_status_t ares_dns_record_query_get(const ares_dns_record_t *r, size_t idx, const char **name, ares_dns_rec_type_t *t, ares_dns_class_t *c) { if (!g_qget_ok) return ARES_EFORMERR; __CPROVER_assert(idx == 0, "C18: the entry is named after the first question"); *name = &qname; return ARES_SUCCESS; }
#define RI(rr) ((size_t)((const char *)(rr) - g_rr))
ares_dns_class_t ares_dns_rr_get_class(const ares_dns_rr_t *rr) { return g_cls[RI(rr)]; }
ares_dns_rec_type_t ares_dns_rr_get_type(const ares_dns_rr_t *rr) { return g_typ[RI(rr)]; }
static char g_cname[AMAX];
const char *ares_dns_rr_get_str(const ares_dns_rr_t *rr, ares_dns_rr_key_t k) { if (k == ARES_RR_CNAME_CNAME) return &g_cname[RI(rr)]; __CPROVER_assert(k == ARES_RR_PTR_DNAME, "C18: the pointed-to name field"); return &g_name[RI(rr)]; }
char *ares_strdup(const char *s) { if (g_oom && nondet_bool()) return NULL; return s == &qname ? &qdup : &g_dup[s - g_name]; }
void *ares_malloc(size_t n) { if (g_oom && nondet_bool()) return NULL; void *p = malloc(n); __CPROVER_assume(p != NULL); return p; }
void ares_free(void *p) { }
void ares_free_hostent(struct hostent *h) { if (h) g_he_freed++; }
void h_ptr_reply(void)
{
  g_parse_ok = nondet_bool(); g_parse_err = nondet_bool() ? ARES_EBADRESP : (nondet_bool() ? ARES_ENOMEM : ARES_EBADNAME); g_an = nondet_size() % (AMAX + 1); g_oom = nondet_bool(); g_qget_ok = nondet_bool(); g_rec_destroyed = g_he_freed = 0; int alen = nondet_int(); static unsigned char pkt[4];
  for (int i = 0; i < AMAX; i++) { g_cls[i] = nondet_bool() ? ARES_CLASS_IN : ARES_CLASS_CHAOS; g_typ[i] = nondet_bool() ? ARES_REC_TYPE_PTR : (nondet_bool() ? ARES_REC_TYPE_CNAME : ARES_REC_TYPE_A); }
  unsigned char addr[16]; for (int i = 0; i < 16; i++) addr[i] = nondet_uchar(); int addrlen = nondet_bool() ? 4 : (nondet_bool() ? 16 : 0); int family = addrlen == 16 ? AF_INET6 : AF_INET; const void *ap = nondet_bool() ? addr : NULL;
  struct hostent *out = (struct hostent *)&rec_tok; int rv = ares_parse_ptr_reply(pkt, alen, ap, addrlen, family, &out);
  if (alen < 0) { __CPROVER_assert(rv == ARES_EBADRESP, "C18/C02: a negative length is a malformed message"); return; }
  if (!g_parse_ok) { __CPROVER_assert(g_he_freed == 0 && rv == (int)(g_parse_err == ARES_EBADNAME ? ARES_EBADRESP : g_parse_err), "C18: the legacy parser fails exactly when the record parser rejects the message (a bad name is a malformed message)"); return; }
  __CPROVER_assert(g_rec_destroyed == 1, "C18/C14: the intermediate record is released");
  size_t want = 0, last = AMAX; for (size_t i = 0; i < AMAX; i++) if (i < g_an && g_cls[i] == ARES_CLASS_IN && g_typ[i] == ARES_REC_TYPE_PTR) { want++; last = i; }
  if (rv != ARES_SUCCESS) {
    __CPROVER_assert(out == NULL && g_he_freed <= 1, "C18/C14: no partial output on error, a partial entry is released once");
    if (rv == ARES_ENODATA) __CPROVER_assert(want == 0, "C18: the no-data status means no PTR answer");
    if (rv == ARES_ENOMEM) __CPROVER_assert(g_oom, "C18/C14: out of memory is reported only when an allocation failed");
    __CPROVER_assert(rv == ARES_ENODATA || rv == ARES_ENOMEM || (!g_qget_ok && rv == ARES_EFORMERR), "C18: an accepted message fails only for no data or out of memory");
    return;
  }
  __CPROVER_assert(out != NULL && g_he_freed == 0 && want > 0, "C18: success hands out the entry");
  __CPROVER_assert(out->h_name == &g_dup[last], "C18/C13: the entry is named after the last pointed-to name");
  __CPROVER_assert(out->h_addrtype == family && out->h_length == addrlen && out->h_addr_list != NULL && out->h_addr_list[1] == NULL, "C18: family and address length as given, one address slot");
  if (ap != NULL && addrlen > 0) { __CPROVER_assert(out->h_addr_list[0] != NULL, "C13: the address asked about is carried"); for (int i = 0; i < 16; i++) if (i < addrlen) __CPROVER_assert(((unsigned char *)out->h_addr_list[0])[i] == addr[i], "C13: the carried address is the one asked about"); }
  else __CPROVER_assert(out->h_addr_list[0] == NULL, "C18: no address given, none carried");
  size_t k = 0; for (size_t i = 0; i < AMAX; i++) if (i < g_an && g_cls[i] == ARES_CLASS_IN && g_typ[i] == ARES_REC_TYPE_PTR) { __CPROVER_assert(out->h_aliases[k] == &g_dup[i], "C18/C13: the alias list holds exactly the pointed-to names of the PTR answers, in answer order"); k++; }
  __CPROVER_assert(out->h_aliases[k] == NULL, "C18: the alias list is NULL terminated right after the last name");
}
