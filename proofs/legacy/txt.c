/* C18/C02: the legacy TXT reply parser (real src/lib/legacy/ares_parse_txt_reply.c) agrees with the record API:
 * exactly the character-strings of the TXT answers, in order, with their lengths (empty ones included). */
#include "nd.h"
#include <stdlib.h>
#include <string.h>
#include "libc_models.h"
#define memcpy x_memmove
#include "src/lib/legacy/ares_parse_txt_reply.c"
#undef memcpy
#define AMAX 2
#define CMAX 2
/* ASSUMED: ghost answer section behind ares_dns_parse()/record getters; ares_malloc_data()/ares_free_data() allocate/release list elements */
static char rec_tok; static _Bool g_parse_ok; static size_t g_an; static ares_dns_class_t g_cls[AMAX]; static ares_dns_rec_type_t g_typ[AMAX]; static size_t g_ccnt[AMAX]; static size_t g_clen[AMAX][CMAX]; static unsigned char g_cdat[AMAX][CMAX][2]; static char g_rr[AMAX];
static int g_rec_destroyed, g_freed_lists; static _Bool g_oom;
ares_status_t ares_dns_parse(const unsigned char *buf, size_t len, unsigned int flags, ares_dns_record_t **rec) { if (!g_parse_ok) { *rec = NULL; return nondet_bool() ? ARES_EBADRESP : ARES_ENOMEM; } *rec = (ares_dns_record_t *)&rec_tok; return ARES_SUCCESS; }
void ares_dns_record_destroy(ares_dns_record_t *r) { if (r) g_rec_destroyed++; }
size_t ares_dns_record_rr_cnt(const ares_dns_record_t *r, ares_dns_section_t s) { return g_an; }
ares_dns_rr_t *ares_dns_record_rr_get(ares_dns_record_t *r, ares_dns_section_t s, size_t i) { return (ares_dns_rr_t *)&g_rr[i]; }
#define RI(rr) ((size_t)((const char *)(rr) - g_rr))
ares_dns_class_t ares_dns_rr_get_class(const ares_dns_rr_t *rr) { return g_cls[RI(rr)]; }
ares_dns_rec_type_t ares_dns_rr_get_type(const ares_dns_rr_t *rr) { return g_typ[RI(rr)]; }
size_t ares_dns_rr_get_abin_cnt(const ares_dns_rr_t *rr, ares_dns_rr_key_t k) { return g_ccnt[RI(rr)]; }
const unsigned char *ares_dns_rr_get_abin(const ares_dns_rr_t *rr, ares_dns_rr_key_t k, size_t idx, size_t *len) { *len = g_clen[RI(rr)][idx]; return g_cdat[RI(rr)][idx]; }
void *ares_malloc_data(ares_datatype t) { if (g_oom && nondet_bool()) return NULL; struct ares_txt_ext *p = calloc(1, sizeof(*p)); __CPROVER_assume(p != NULL); return p; }
void ares_free_data(void *p) { g_freed_lists++; }
static char g_pool[8][4]; static int g_pool_n;
void *ares_malloc(size_t n) { if (g_oom && nondet_bool()) return NULL; __CPROVER_assert(n <= 4 && g_pool_n < 8, "model capacity"); return g_pool[g_pool_n++]; }
void h_txt_reply(void)
{
  g_parse_ok = nondet_bool(); g_an = nondet_size() % (AMAX + 1); g_oom = nondet_bool(); g_rec_destroyed = g_freed_lists = 0; g_pool_n = 0; int alen = nondet_int(); static unsigned char pkt[4];
  for (int i = 0; i < AMAX; i++) { g_cls[i] = nondet_bool() ? ARES_CLASS_IN : ARES_CLASS_HESOID; g_typ[i] = nondet_bool() ? ARES_REC_TYPE_TXT : ARES_REC_TYPE_CNAME; g_ccnt[i] = nondet_size() % (CMAX + 1); for (int j = 0; j < CMAX; j++) { g_clen[i][j] = nondet_size() % 3; g_cdat[i][j][0] = nondet_uchar(); g_cdat[i][j][1] = nondet_uchar(); } }
  struct ares_txt_ext *out = (struct ares_txt_ext *)&rec_tok;
  int rv = ares_parse_txt_reply_ext(pkt, alen, &out);
  if (alen < 0) { __CPROVER_assert(rv == ARES_EBADRESP, "C18/C02: a negative length is a malformed message"); return; }
  if (!g_parse_ok) { __CPROVER_assert(rv != ARES_SUCCESS && out == NULL, "C18: the legacy parser fails exactly when the record parser rejects the message, with no output"); return; }
  __CPROVER_assert(g_rec_destroyed == 1, "C18/C14: the intermediate record is released");
  if (rv != ARES_SUCCESS) { __CPROVER_assert(out == NULL, "C18: no partial output on error"); return; }
  struct ares_txt_ext *c = out;
  for (size_t i = 0; i < AMAX; i++) if (i < g_an && g_cls[i] == ARES_CLASS_IN && g_typ[i] == ARES_REC_TYPE_TXT)
    for (size_t j = 0; j < CMAX; j++) if (j < g_ccnt[i]) {
      __CPROVER_assert(c != NULL, "C18: every character-string the record API reports is returned (an empty one is still an element)");
      __CPROVER_assert(c->length == g_clen[i][j] && c->txt[c->length] == 0 && (c->length < 1 || c->txt[0] == g_cdat[i][j][0]) && (c->length < 2 || c->txt[1] == g_cdat[i][j][1]), "C18: identical text chunks, in answer order");
      __CPROVER_assert(c->record_start == (j == 0 ? 1 : 0), "C18: the first chunk of each TXT record is marked");
      c = c->next;
    }
  __CPROVER_assert(c == NULL, "C18: nothing else is returned");
}
