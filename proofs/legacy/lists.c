/* C18: legacy list-returning reply parsers (real src/lib/legacy/ares_parse_mx_reply.c / ares_parse_srv_reply.c) agree with
 * the record API: exactly the Internet-class records of their type, in answer order, with identical field values. */
#include "nd.h"
#include <stdlib.h>
#include <string.h>
#if defined(T_MX)
#include "src/lib/legacy/ares_parse_mx_reply.c"
#define RTYPE ARES_REC_TYPE_MX
#else
#include "src/lib/legacy/ares_parse_srv_reply.c"
#define RTYPE ARES_REC_TYPE_SRV
#endif
#define AMAX 3
/* ASSUMED: ghost answer section behind ares_dns_parse()/record getters; ares_malloc_data()/ares_free_data() allocate/release list elements; ares_strdup() returns a per-record token or fails */
static char rec_tok; static _Bool g_parse_ok, g_oom; static size_t g_an; static ares_dns_class_t g_cls[AMAX]; static ares_dns_rec_type_t g_typ[AMAX]; static unsigned short g_u16[AMAX][3]; static char g_rr[AMAX]; static char g_name[AMAX]; static char g_dup[AMAX];
static int g_rec_destroyed, g_freed_lists;
ares_status_t ares_dns_parse(const unsigned char *buf, size_t len, unsigned int flags, ares_dns_record_t **rec) { if (!g_parse_ok) { *rec = NULL; return nondet_bool() ? ARES_EBADRESP : ARES_ENOMEM; } *rec = (ares_dns_record_t *)&rec_tok; return ARES_SUCCESS; }
void ares_dns_record_destroy(ares_dns_record_t *r) { if (r) g_rec_destroyed++; }
size_t ares_dns_record_rr_cnt(const ares_dns_record_t *r, ares_dns_section_t s) { return g_an; }
ares_dns_rr_t *ares_dns_record_rr_get(ares_dns_record_t *r, ares_dns_section_t s, size_t i) { return (ares_dns_rr_t *)&g_rr[i]; }
#define RI(rr) ((size_t)((const char *)(rr) - g_rr))
ares_dns_class_t ares_dns_rr_get_class(const ares_dns_rr_t *rr) { return g_cls[RI(rr)]; }
ares_dns_rec_type_t ares_dns_rr_get_type(const ares_dns_rr_t *rr) { return g_typ[RI(rr)]; }
unsigned short ares_dns_rr_get_u16(const ares_dns_rr_t *rr, ares_dns_rr_key_t k)
{
#if defined(T_MX)
  __CPROVER_assert(k == ARES_RR_MX_PREFERENCE, "C18: MX preference"); return g_u16[RI(rr)][0];
#else
  return g_u16[RI(rr)][k == ARES_RR_SRV_PRIORITY ? 0 : (k == ARES_RR_SRV_WEIGHT ? 1 : 2)];
#endif
}
const char *ares_dns_rr_get_str(const ares_dns_rr_t *rr, ares_dns_rr_key_t k) { return &g_name[RI(rr)]; }
char *ares_strdup(const char *s) { if (g_oom && nondet_bool()) return NULL; return &g_dup[s - g_name]; }
void *ares_malloc_data(ares_datatype t) { if (g_oom && nondet_bool()) return NULL; void *p = calloc(1, 64); __CPROVER_assume(p != NULL); return p; }
void ares_free_data(void *p) { g_freed_lists++; }
void h_list_reply(void)
{
  g_parse_ok = nondet_bool(); g_an = nondet_size() % (AMAX + 1); g_oom = nondet_bool(); g_rec_destroyed = g_freed_lists = 0; int alen = nondet_int(); static unsigned char pkt[4];
  for (int i = 0; i < AMAX; i++) { g_cls[i] = nondet_bool() ? ARES_CLASS_IN : ARES_CLASS_CHAOS; g_typ[i] = nondet_bool() ? RTYPE : ARES_REC_TYPE_CNAME; for (int j = 0; j < 3; j++) g_u16[i][j] = nondet_u16(); }
#if defined(T_MX)
  struct ares_mx_reply *out = (struct ares_mx_reply *)&rec_tok; int rv = ares_parse_mx_reply(pkt, alen, &out);
#else
  struct ares_srv_reply *out = (struct ares_srv_reply *)&rec_tok; int rv = ares_parse_srv_reply(pkt, alen, &out);
#endif
  if (alen < 0) { __CPROVER_assert(rv == ARES_EBADRESP && out == NULL, "C18/C02: a negative length is a malformed message"); return; }
  if (!g_parse_ok) { __CPROVER_assert(rv != ARES_SUCCESS && out == NULL, "C18: the legacy parser fails exactly when the record parser rejects the message, with no output"); return; }
  __CPROVER_assert(g_rec_destroyed == 1, "C18/C14: the intermediate record is released");
  if (rv != ARES_SUCCESS) { __CPROVER_assert(out == NULL, "C18: no partial output on error"); return; }
  __typeof__(out) c = out;
  for (size_t i = 0; i < AMAX; i++) if (i < g_an && g_cls[i] == ARES_CLASS_IN && g_typ[i] == RTYPE) {
    __CPROVER_assert(c != NULL, "C18: every record of the type that the record API reports is returned");
#if defined(T_MX)
    __CPROVER_assert(c->priority == g_u16[i][0] && c->host == &g_dup[i], "C18: identical preference and exchange, in answer order");
#else
    __CPROVER_assert(c->priority == g_u16[i][0] && c->weight == g_u16[i][1] && c->port == g_u16[i][2] && c->host == &g_dup[i], "C18: identical priority, weight, port and target, in answer order");
#endif
    c = c->next;
  }
  __CPROVER_assert(c == NULL, "C18: nothing else is returned (other classes and types are skipped)");
}
