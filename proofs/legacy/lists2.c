/* C18: legacy reply parsers for NAPTR, URI, CAA (lists) and SOA (single struct) -- the real src/lib/legacy/ares_parse_*_reply.c --
 * agree with the record API: exactly the records of their type (class rule as coded), in answer order, with identical field
 * values; a rejected message gives an error and no output; nothing partial on error; the intermediate record is released. */
#include "nd.h"
#include <stdlib.h>
#include <string.h>
#if defined(T_NAPTR)
#include "src/lib/legacy/ares_parse_naptr_reply.c"
#define RTYPE ARES_REC_TYPE_NAPTR
#define OUT_T struct ares_naptr_reply
#define CALL ares_parse_naptr_reply
#elif defined(T_URI)
#include "src/lib/legacy/ares_parse_uri_reply.c"
#define RTYPE ARES_REC_TYPE_URI
#define OUT_T struct ares_uri_reply
#define CALL ares_parse_uri_reply
#elif defined(T_CAA)
#include "src/lib/legacy/ares_parse_caa_reply.c"
#define RTYPE ARES_REC_TYPE_CAA
#define OUT_T struct ares_caa_reply
#define CALL ares_parse_caa_reply
#else
#include "src/lib/legacy/ares_parse_soa_reply.c"
#define RTYPE ARES_REC_TYPE_SOA
#define OUT_T struct ares_soa_reply
#define CALL ares_parse_soa_reply
#endif
#define AMAX 3
#define VMAX 2
/* ASSUMED: ghost answer section behind ares_dns_parse()/record getters; ares_malloc_data()/ares_free_data() allocate/release list
 * elements; ares_strdup() returns a per-record per-field token or fails; ares_strlen() of a token is the ghost length */
static char rec_tok; static _Bool g_parse_ok, g_oom; static ares_status_t g_parse_err; static size_t g_an; static ares_dns_class_t g_cls[AMAX]; static ares_dns_rec_type_t g_typ[AMAX];
static unsigned char g_u8[AMAX]; static unsigned short g_u16[AMAX][2]; static unsigned int g_u32[AMAX][5], g_ttl[AMAX]; static char g_rr[AMAX]; static char g_name[AMAX][4], g_dup[AMAX][4]; static size_t g_slen[AMAX];
static unsigned char g_val[AMAX][VMAX]; static size_t g_vlen[AMAX]; static _Bool g_val_null;
static int g_rec_destroyed, g_freed_lists; static void *g_freed_arg;
ares_status_t ares_dns_parse(const unsigned char *buf, size_t len, unsigned int flags, ares_dns_record_t **rec) { if (!g_parse_ok) { *rec = NULL; return g_parse_err; } *rec = (ares_dns_record_t *)&rec_tok; return ARES_SUCCESS; }
void ares_dns_record_destroy(ares_dns_record_t *r) { if (r) g_rec_destroyed++; }
size_t ares_dns_record_rr_cnt(const ares_dns_record_t *r, ares_dns_section_t s) { __CPROVER_assert(s == ARES_SECTION_ANSWER, "C18: only the answer section is converted"); return g_an; }
ares_dns_rr_t *ares_dns_record_rr_get(ares_dns_record_t *r, ares_dns_section_t s, size_t i) { __CPROVER_assert(s == ARES_SECTION_ANSWER && i < g_an, "C18: answer index in range"); return (ares_dns_rr_t *)&g_rr[i]; }
const ares_dns_rr_t *ares_dns_record_rr_get_const(const ares_dns_record_t *r, ares_dns_section_t s, size_t i) { return (const ares_dns_rr_t *)&g_rr[i]; }
#define RI(rr) ((size_t)((const char *)(rr) - g_rr))
ares_dns_class_t ares_dns_rr_get_class(const ares_dns_rr_t *rr) { return g_cls[RI(rr)]; }
ares_dns_rec_type_t ares_dns_rr_get_type(const ares_dns_rr_t *rr) { return g_typ[RI(rr)]; }
unsigned int ares_dns_rr_get_ttl(const ares_dns_rr_t *rr) { return g_ttl[RI(rr)]; }
unsigned char ares_dns_rr_get_u8(const ares_dns_rr_t *rr, ares_dns_rr_key_t k) { __CPROVER_assert(k == ARES_RR_CAA_CRITICAL, "C18: CAA critical flag"); return g_u8[RI(rr)]; }
unsigned short ares_dns_rr_get_u16(const ares_dns_rr_t *rr, ares_dns_rr_key_t k)
{
  __CPROVER_assert(k == ARES_RR_NAPTR_ORDER || k == ARES_RR_NAPTR_PREFERENCE || k == ARES_RR_URI_PRIORITY || k == ARES_RR_URI_WEIGHT, "C18: a 16-bit field of the type");
  return g_u16[RI(rr)][(k == ARES_RR_NAPTR_ORDER || k == ARES_RR_URI_PRIORITY) ? 0 : 1];
}
unsigned int ares_dns_rr_get_u32(const ares_dns_rr_t *rr, ares_dns_rr_key_t k)
{
  __CPROVER_assert(k >= ARES_RR_SOA_SERIAL && k <= ARES_RR_SOA_MINIMUM, "C18: a 32-bit SOA field");
  return g_u32[RI(rr)][k - ARES_RR_SOA_SERIAL];
}
static size_t str_ix(ares_dns_rr_key_t k)
{
  switch (k) {
    case ARES_RR_NAPTR_FLAGS: case ARES_RR_URI_TARGET: case ARES_RR_CAA_TAG: case ARES_RR_SOA_MNAME: return 0;
    case ARES_RR_NAPTR_SERVICES: case ARES_RR_SOA_RNAME: return 1;
    case ARES_RR_NAPTR_REGEXP: return 2;
    case ARES_RR_NAPTR_REPLACEMENT: return 3;
    default: __CPROVER_assert(0, "C18: a string field of the type"); return 0;
  }
}
const char *ares_dns_rr_get_str(const ares_dns_rr_t *rr, ares_dns_rr_key_t k) { return &g_name[RI(rr)][str_ix(k)]; }
const unsigned char *ares_dns_rr_get_bin(const ares_dns_rr_t *rr, ares_dns_rr_key_t k, size_t *len) { __CPROVER_assert(k == ARES_RR_CAA_VALUE, "C18: CAA value"); if (g_val_null) return NULL; *len = g_vlen[RI(rr)]; return g_val[RI(rr)]; }
char *ares_strdup(const char *s) { if (g_oom && nondet_bool()) return NULL; return &g_dup[0][0] + (s - &g_name[0][0]); }
size_t ares_strlen(const char *s) { return g_slen[(size_t)(s - &g_dup[0][0]) / 4]; }
void *ares_malloc_data(ares_datatype t)
{
#if defined(T_NAPTR)
  __CPROVER_assert(t == ARES_DATATYPE_NAPTR_REPLY, "C18: the element carries its own type tag, so ares_free_data releases it as what it is");
#elif defined(T_URI)
  __CPROVER_assert(t == ARES_DATATYPE_URI_REPLY, "C18: the element carries its own type tag, so ares_free_data releases it as what it is");
#elif defined(T_CAA)
  __CPROVER_assert(t == ARES_DATATYPE_CAA_REPLY, "C18: the element carries its own type tag, so ares_free_data releases it as what it is");
#else
  __CPROVER_assert(t == ARES_DATATYPE_SOA_REPLY, "C18: the element carries its own type tag, so ares_free_data releases it as what it is");
#endif
  if (g_oom && nondet_bool()) return NULL; void *p = calloc(1, sizeof(OUT_T)); __CPROVER_assume(p != NULL); return p;
}
void *ares_malloc(size_t n) { if (g_oom && nondet_bool()) return NULL; __CPROVER_assert(n <= VMAX + 1, "C18: value buffer sized from the record"); void *p = malloc(VMAX + 1); __CPROVER_assume(p != NULL); return p; }
void ares_free(void *p) { }
void ares_free_data(void *p) { if (p) { g_freed_lists++; g_freed_arg = p; } }
void h_list2_reply(void)
{
  g_parse_ok = nondet_bool(); g_parse_err = nondet_bool() ? ARES_EBADRESP : (nondet_bool() ? ARES_ENOMEM : ARES_EBADNAME); g_an = nondet_size() % (AMAX + 1); g_oom = nondet_bool(); g_val_null = 0; g_rec_destroyed = g_freed_lists = 0; int alen = nondet_int(); static unsigned char pkt[4];
  for (int i = 0; i < AMAX; i++) {
    g_cls[i] = nondet_bool() ? ARES_CLASS_IN : (nondet_bool() ? ARES_CLASS_CHAOS : ARES_CLASS_HESOID); g_typ[i] = nondet_bool() ? RTYPE : ARES_REC_TYPE_CNAME; g_u8[i] = nondet_u8(); g_ttl[i] = nondet_u32(); g_slen[i] = nondet_size();
    for (int j = 0; j < 2; j++) g_u16[i][j] = nondet_u16(); for (int j = 0; j < 5; j++) g_u32[i][j] = nondet_u32();
    g_vlen[i] = nondet_size() % (VMAX + 1); for (int j = 0; j < VMAX; j++) g_val[i][j] = nondet_u8();
  }
  OUT_T *out = (OUT_T *)&rec_tok; int rv = CALL(pkt, alen, &out);
  if (alen < 0) { __CPROVER_assert(rv == ARES_EBADRESP && out == NULL, "C18/C02: a negative length is a malformed message"); return; }
  if (!g_parse_ok) {
    __CPROVER_assert(rv != ARES_SUCCESS && out == NULL && g_freed_lists == 0, "C18: the legacy parser fails exactly when the record parser rejects the message, with no output");
#if !defined(T_SOA)
    __CPROVER_assert(rv == (int)g_parse_err, "C18: the record parser's status is passed on");
#else
    __CPROVER_assert(rv == (int)(g_parse_err == ARES_EBADNAME ? ARES_EBADRESP : g_parse_err), "C18: the record parser's status is passed on (a bad name is a malformed message)");
#endif
    return;
  }
  __CPROVER_assert(g_rec_destroyed == 1, "C18/C14: the intermediate record is released");
  size_t want = 0; for (size_t i = 0; i < AMAX; i++) if (i < g_an && g_typ[i] == RTYPE &&
#if defined(T_CAA)
      (g_cls[i] == ARES_CLASS_IN || g_cls[i] == ARES_CLASS_CHAOS)
#else
      g_cls[i] == ARES_CLASS_IN
#endif
      ) want++;
  if (rv != ARES_SUCCESS) {
    __CPROVER_assert(out == NULL, "C18: no partial output on error");
    __CPROVER_assert(g_freed_lists <= 1, "C18/C14: a partial result is released once");
    if (rv == ARES_ENODATA) __CPROVER_assert(g_an == 0, "C18: the no-data status means the answer section is empty");
    if (rv == ARES_ENOMEM) __CPROVER_assert(g_oom && want > 0, "C18/C14: out of memory is reported only when an allocation failed");
#if defined(T_SOA)
    if (rv == ARES_EBADRESP) __CPROVER_assert(want == 0, "C18: SOA is reported missing only when the answers hold none");
#else
    __CPROVER_assert(rv == ARES_ENODATA || rv == ARES_ENOMEM, "C18: an accepted message fails only for no data or out of memory");
#endif
    return;
  }
  __CPROVER_assert(g_freed_lists == 0, "C18: a returned result is not released");
  OUT_T *c = out;
#if defined(T_SOA)
  size_t first = AMAX; for (size_t i = AMAX; i-- > 0;) if (i < g_an && g_typ[i] == RTYPE && g_cls[i] == ARES_CLASS_IN) first = i;
  __CPROVER_assert(first < AMAX && c != NULL, "C18: success means an SOA answer exists");
  __CPROVER_assert(c->serial == g_u32[first][0] && c->refresh == g_u32[first][1] && c->retry == g_u32[first][2] && c->expire == g_u32[first][3] && c->minttl == g_u32[first][4], "C18: identical serial, refresh, retry, expire and minimum of the FIRST SOA answer");
  __CPROVER_assert(c->nsname == &g_dup[first][0] && c->hostmaster == &g_dup[first][1], "C18: identical primary server and mailbox names");
#else
  for (size_t i = 0; i < AMAX; i++) if (i < g_an && g_typ[i] == RTYPE &&
#if defined(T_CAA)
      (g_cls[i] == ARES_CLASS_IN || g_cls[i] == ARES_CLASS_CHAOS)
#else
      g_cls[i] == ARES_CLASS_IN
#endif
      ) {
    __CPROVER_assert(c != NULL, "C18: every record of the type that the record API reports is returned");
#if defined(T_NAPTR)
    __CPROVER_assert(c->order == g_u16[i][0] && c->preference == g_u16[i][1], "C18: identical order and preference, in answer order");
    __CPROVER_assert((char *)c->flags == &g_dup[i][0] && (char *)c->service == &g_dup[i][1] && (char *)c->regexp == &g_dup[i][2] && c->replacement == &g_dup[i][3], "C18: identical flags, services, regexp and replacement");
#elif defined(T_URI)
    __CPROVER_assert(c->priority == g_u16[i][0] && c->weight == g_u16[i][1] && c->uri == &g_dup[i][0] && c->ttl == (int)g_ttl[i], "C18: identical priority, weight, target and TTL, in answer order");
#else
    __CPROVER_assert(c->critical == g_u8[i] && (char *)c->property == &g_dup[i][0] && c->plength == g_slen[i], "C18: identical critical flag and tag, in answer order");
    __CPROVER_assert(c->length == g_vlen[i] && c->value != NULL && c->value[g_vlen[i]] == 0, "C18: the value keeps its length and is NUL-terminated");
    for (size_t j = 0; j < VMAX; j++) if (j < g_vlen[i]) __CPROVER_assert(c->value[j] == g_val[i][j], "C18: identical value bytes");
#endif
    c = c->next;
  }
  __CPROVER_assert(c == NULL, "C18: nothing else is returned (other classes and types are skipped)");
#endif
}
