/* C02/C04/C05: the byte-string helpers of the real src/lib/str/ares_str.c that the buffer readers and the record parsers call
 * (they are ASSUMED contracts in readers.c / parse.c; here they are discharged on the real text).
 * The verified text is /repo/src/lib/str/ares_str.c itself (resolved through -I/repo). */
#include "alloc.h"
#include "src/lib/str/ares_str.c"

/* ghost index: stands for "every k" in the postconditions (universally quantified by being unconstrained) */
/* ASSUMED: str.isprint / str.memeq_ci run without --pointer-overflow-check (ghost-indexed clauses made it > 400 s); bounds, pointer validity and all other checks stay on */
size_t g_n; /* ghost: size of the object holding a NUL-terminated string */
size_t g_k; /* harnesses keep it below the length cap: for g_k >= len every clause that mentions it is trivially true */

/* printable = the real ares_isprint() macro, written out (no macros inside loop-contract text) */
#define PRINTABLE(c) ((c) >= 0x20 && (c) <= 0x7E)
#define LOWER(c) ((unsigned char)(((c) >= 'A' && (c) <= 'Z') ? (c) + 32 : (c)))

ares_bool_t ares_str_isprint(const char *str, size_t len)
__CPROVER_requires(len <= 70000 && (str == NULL || __CPROVER_is_fresh(str, len)))
__CPROVER_assigns()
__CPROVER_ensures(__CPROVER_return_value == ARES_TRUE || __CPROVER_return_value == ARES_FALSE)
__CPROVER_ensures((str == NULL && len != 0) ==> __CPROVER_return_value == ARES_FALSE)
__CPROVER_ensures((__CPROVER_return_value == ARES_TRUE && str != NULL && g_k < len) ==> PRINTABLE(str[g_k]))
__CPROVER_ensures((str != NULL && g_k < len && !PRINTABLE(str[g_k])) ==> __CPROVER_return_value == ARES_FALSE)
__CPROVER_ensures(len == 0 ==> __CPROVER_return_value == ARES_TRUE)
;

ares_bool_t ares_memeq_ci(const unsigned char *ptr, const unsigned char *val, size_t len)
__CPROVER_requires(len <= 70000 && __CPROVER_is_fresh(ptr, len) && __CPROVER_is_fresh(val, len))
__CPROVER_assigns()
__CPROVER_ensures(__CPROVER_return_value == ARES_TRUE || __CPROVER_return_value == ARES_FALSE)
__CPROVER_ensures((__CPROVER_return_value == ARES_TRUE && g_k < len) ==> LOWER(ptr[g_k]) == LOWER(val[g_k]))
__CPROVER_ensures((g_k < len && LOWER(ptr[g_k]) != LOWER(val[g_k])) ==> __CPROVER_return_value == ARES_FALSE)
__CPROVER_ensures(len == 0 ==> __CPROVER_return_value == ARES_TRUE)
;

unsigned char ares_tolower(unsigned char c)
__CPROVER_requires(1)
__CPROVER_assigns()
__CPROVER_ensures(__CPROVER_return_value == LOWER(c))
;

/* NUL-terminated input: an object of n bytes whose last byte is 0 (any earlier NUL ends the string sooner) */
ares_bool_t ares_str_isnum(const char *str)
__CPROVER_requires(g_n >= 1 && g_n <= 70000 && (str == NULL || (__CPROVER_is_fresh(str, g_n) && str[g_n - 1] == 0)))
__CPROVER_assigns()
__CPROVER_ensures(__CPROVER_return_value == ARES_TRUE || __CPROVER_return_value == ARES_FALSE)
__CPROVER_ensures(__CPROVER_return_value == ARES_TRUE ==> (str != NULL && str[0] >= '0' && str[0] <= '9'))
__CPROVER_ensures((str == NULL || str[0] == 0) ==> __CPROVER_return_value == ARES_FALSE)
;
void h_str_isnum(void) { const char *s; g_n = nondet_size(); ares_str_isnum(s); }

ares_bool_t ares_str_isalnum(const char *str)
__CPROVER_requires(g_n >= 1 && g_n <= 70000 && (str == NULL || (__CPROVER_is_fresh(str, g_n) && str[g_n - 1] == 0)))
__CPROVER_assigns()
__CPROVER_ensures(__CPROVER_return_value == ARES_TRUE || __CPROVER_return_value == ARES_FALSE)
__CPROVER_ensures(__CPROVER_return_value == ARES_TRUE ==> (str != NULL && ((str[0] >= '0' && str[0] <= '9') || (str[0] >= 'a' && str[0] <= 'z') || (str[0] >= 'A' && str[0] <= 'Z'))))
__CPROVER_ensures((str == NULL || str[0] == 0) ==> __CPROVER_return_value == ARES_FALSE)
;
void h_str_isalnum(void) { const char *s; g_n = nondet_size(); ares_str_isalnum(s); }

void h_str_isprint(void) { const char *s; size_t n; g_k = nondet_size(); __CPROVER_assume(g_k < 70000); ares_str_isprint(s, n); }
void h_memeq_ci(void) { const unsigned char *a; const unsigned char *b; size_t n; g_k = nondet_size(); __CPROVER_assume(g_k < 70000); ares_memeq_ci(a, b, n); }
void h_tolower(void) { unsigned char c; ares_tolower(c); }
