/* C02/C19 layer 0: the byte-buffer readers of the real src/lib/str/ares_buf.c, under contract.
 * The verified text is /repo/src/lib/str/ares_buf.c itself (resolved through -I/repo). */
#include "alloc.h"
#define memcpy  v_memcpy
#define memmove v_memmove
#define memchr  v_memchr
#define memcmp  v_memcmp
#include "src/lib/str/ares_buf.c"
#undef memcpy
#undef memmove
#undef memchr
#undef memcmp
#include "buf_spec.h"

/* ---- contracts (re-declarations after the definitions) ---------------------------------- */

ares_status_t ares_buf_consume(ares_buf_t *buf, size_t len)
__CPROVER_requires(BUF_CONST_WF(buf))
__CPROVER_assigns(buf->offset)
__CPROVER_ensures(BUF_POS_OK(buf))
__CPROVER_ensures(__CPROVER_return_value == ARES_SUCCESS || __CPROVER_return_value == ARES_EBADRESP)
__CPROVER_ensures(__CPROVER_return_value == ARES_SUCCESS ==> (len <= __CPROVER_old(buf->data_len) - __CPROVER_old(buf->offset) && buf->offset == __CPROVER_old(buf->offset) + len))
__CPROVER_ensures(__CPROVER_return_value != ARES_SUCCESS ==> (len > __CPROVER_old(buf->data_len) - __CPROVER_old(buf->offset) && buf->offset == __CPROVER_old(buf->offset)))
;

ares_status_t ares_buf_fetch_be16(ares_buf_t *buf, unsigned short *u16)
__CPROVER_requires(BUF_CONST_WF(buf))
__CPROVER_requires(__CPROVER_is_fresh(u16, sizeof(*u16)))
__CPROVER_assigns(buf->offset, *u16)
__CPROVER_ensures(BUF_POS_OK(buf))
__CPROVER_ensures(__CPROVER_return_value == ARES_SUCCESS || __CPROVER_return_value == ARES_EBADRESP)
__CPROVER_ensures(__CPROVER_return_value == ARES_SUCCESS ==> (buf->offset == __CPROVER_old(buf->offset) + 2 && *u16 == BE16_AT(buf->data, buf->offset - 2)))
__CPROVER_ensures(__CPROVER_return_value != ARES_SUCCESS ==> (buf->offset == __CPROVER_old(buf->offset) && __CPROVER_old(buf->data_len) - __CPROVER_old(buf->offset) < 2))
;

ares_status_t ares_buf_fetch_be32(ares_buf_t *buf, unsigned int *u32)
__CPROVER_requires(BUF_CONST_WF(buf))
__CPROVER_requires(__CPROVER_is_fresh(u32, sizeof(*u32)))
__CPROVER_assigns(buf->offset, *u32)
__CPROVER_ensures(BUF_POS_OK(buf))
__CPROVER_ensures(__CPROVER_return_value == ARES_SUCCESS || __CPROVER_return_value == ARES_EBADRESP)
__CPROVER_ensures(__CPROVER_return_value == ARES_SUCCESS ==> (buf->offset == __CPROVER_old(buf->offset) + 4 && *u32 == BE32_AT(buf->data, buf->offset - 4)))
__CPROVER_ensures(__CPROVER_return_value != ARES_SUCCESS ==> (buf->offset == __CPROVER_old(buf->offset) && __CPROVER_old(buf->data_len) - __CPROVER_old(buf->offset) < 4))
;

ares_status_t ares_buf_fetch_bytes(ares_buf_t *buf, unsigned char *bytes, size_t len)
__CPROVER_requires(BUF_CONST_WF(buf))
__CPROVER_requires(len <= VCAP && (bytes == NULL || __CPROVER_is_fresh(bytes, len)))
__CPROVER_assigns(buf->offset; bytes != NULL: __CPROVER_object_whole(bytes))
__CPROVER_ensures(BUF_POS_OK(buf))
__CPROVER_ensures(__CPROVER_return_value == ARES_SUCCESS || __CPROVER_return_value == ARES_EBADRESP)
__CPROVER_ensures(__CPROVER_return_value == ARES_SUCCESS ==> (len > 0 && bytes != NULL && buf->offset == __CPROVER_old(buf->offset) + len))
__CPROVER_ensures(__CPROVER_return_value != ARES_SUCCESS ==> buf->offset == __CPROVER_old(buf->offset))
;

ares_status_t ares_buf_fetch_bytes_dup(ares_buf_t *buf, size_t len, ares_bool_t null_term, unsigned char **bytes)
__CPROVER_requires(BUF_CONST_WF(buf))
__CPROVER_requires(__CPROVER_is_fresh(bytes, sizeof(*bytes)))
__CPROVER_assigns(buf->offset, *bytes)
__CPROVER_ensures(BUF_POS_OK(buf))
__CPROVER_ensures(__CPROVER_return_value == ARES_SUCCESS || __CPROVER_return_value == ARES_EBADRESP || __CPROVER_return_value == ARES_ENOMEM)
__CPROVER_ensures(__CPROVER_return_value == ARES_SUCCESS ==> (len > 0 && buf->offset == __CPROVER_old(buf->offset) + len && __CPROVER_is_fresh(*bytes, null_term ? len + 1 : len) && (!null_term || (*bytes)[len] == 0)))
__CPROVER_ensures(__CPROVER_return_value != ARES_SUCCESS ==> buf->offset == __CPROVER_old(buf->offset))
__CPROVER_ensures(__CPROVER_return_value == ARES_ENOMEM ==> *bytes == NULL)
;

ares_status_t ares_buf_fetch_str_dup(ares_buf_t *buf, size_t len, char **str)
__CPROVER_requires(BUF_CONST_WF(buf))
__CPROVER_requires(__CPROVER_is_fresh(str, sizeof(*str)))
__CPROVER_assigns(buf->offset, *str)
__CPROVER_ensures(BUF_POS_OK(buf))
__CPROVER_ensures(__CPROVER_return_value == ARES_SUCCESS || __CPROVER_return_value == ARES_EBADRESP || __CPROVER_return_value == ARES_ENOMEM || __CPROVER_return_value == ARES_EBADSTR)
__CPROVER_ensures(__CPROVER_return_value == ARES_SUCCESS ==> (len > 0 && buf->offset == __CPROVER_old(buf->offset) + len && __CPROVER_is_fresh(*str, len + 1) && (*str)[len] == 0))
__CPROVER_ensures(__CPROVER_return_value != ARES_SUCCESS ==> buf->offset == __CPROVER_old(buf->offset))
;

void ares_buf_tag(ares_buf_t *buf)
__CPROVER_requires(BUF_CONST_WF(buf))
__CPROVER_assigns(buf->tag_offset)
__CPROVER_ensures(buf->tag_offset == buf->offset && BUF_POS_OK(buf))
;

ares_status_t ares_buf_tag_rollback(ares_buf_t *buf)
__CPROVER_requires(BUF_CONST_WF(buf))
__CPROVER_assigns(buf->tag_offset, buf->offset)
__CPROVER_ensures(BUF_POS_OK(buf) && buf->tag_offset == NOTAG)
__CPROVER_ensures(__CPROVER_return_value == ARES_SUCCESS ==> (__CPROVER_old(buf->tag_offset) != NOTAG && buf->offset == __CPROVER_old(buf->tag_offset)))
__CPROVER_ensures(__CPROVER_return_value != ARES_SUCCESS ==> (__CPROVER_old(buf->tag_offset) == NOTAG && buf->offset == __CPROVER_old(buf->offset)))
;

ares_status_t ares_buf_tag_clear(ares_buf_t *buf)
__CPROVER_requires(BUF_CONST_WF(buf))
__CPROVER_assigns(buf->tag_offset)
__CPROVER_ensures(buf->tag_offset == NOTAG)
__CPROVER_ensures((__CPROVER_return_value == ARES_SUCCESS) == (__CPROVER_old(buf->tag_offset) != NOTAG))
;

const unsigned char *ares_buf_tag_fetch(const ares_buf_t *buf, size_t *len)
__CPROVER_requires(BUF_CONST_WF(buf))
__CPROVER_requires(__CPROVER_is_fresh(len, sizeof(*len)))
__CPROVER_assigns(*len)
__CPROVER_ensures(buf->tag_offset == NOTAG ==> __CPROVER_return_value == NULL)
__CPROVER_ensures(buf->tag_offset != NOTAG ==> (__CPROVER_return_value == buf->data + buf->tag_offset && *len == buf->offset - buf->tag_offset && buf->tag_offset + *len <= buf->data_len))
;

size_t ares_buf_tag_length(const ares_buf_t *buf)
__CPROVER_requires(BUF_CONST_WF(buf))
__CPROVER_assigns()
__CPROVER_ensures(__CPROVER_return_value == (buf->tag_offset == NOTAG ? 0 : buf->offset - buf->tag_offset))
;

ares_status_t ares_buf_tag_fetch_bytes(const ares_buf_t *buf, unsigned char *bytes, size_t *len)
__CPROVER_requires(BUF_CONST_WF(buf))
__CPROVER_requires(__CPROVER_is_fresh(len, sizeof(*len)) && *len <= VCAP && __CPROVER_is_fresh(bytes, *len))
__CPROVER_assigns(*len, __CPROVER_object_whole(bytes))
__CPROVER_ensures(__CPROVER_return_value == ARES_SUCCESS ==> (*len <= __CPROVER_old(*len) && *len == buf->offset - buf->tag_offset))
__CPROVER_ensures(__CPROVER_return_value != ARES_SUCCESS ==> *len == __CPROVER_old(*len))
;

/* never writes more than len bytes, always terminates the string (C15) */
ares_status_t ares_buf_tag_fetch_string(const ares_buf_t *buf, char *str, size_t len)
__CPROVER_requires(BUF_CONST_WF(buf))
__CPROVER_requires(len <= VCAP && __CPROVER_is_fresh(str, len))
__CPROVER_assigns(__CPROVER_object_whole(str))
__CPROVER_ensures(__CPROVER_return_value == ARES_SUCCESS ==> (len > 0 && buf->tag_offset != NOTAG && buf->offset - buf->tag_offset < len && str[buf->offset - buf->tag_offset] == 0))
;

ares_status_t ares_buf_tag_fetch_strdup(const ares_buf_t *buf, char **str)
__CPROVER_requires(BUF_CONST_WF(buf))
__CPROVER_requires(__CPROVER_is_fresh(str, sizeof(*str)))
__CPROVER_assigns(*str)
__CPROVER_ensures(__CPROVER_return_value == ARES_SUCCESS ==> (__CPROVER_is_fresh(*str, buf->offset - buf->tag_offset + 1) && (*str)[buf->offset - buf->tag_offset] == 0))
;

ares_status_t ares_buf_tag_fetch_constbuf(const ares_buf_t *buf, ares_buf_t **newbuf)
__CPROVER_requires(BUF_CONST_WF(buf))
__CPROVER_requires(__CPROVER_is_fresh(newbuf, sizeof(*newbuf)))
__CPROVER_assigns(*newbuf)
__CPROVER_ensures(__CPROVER_return_value == ARES_SUCCESS ==> (__CPROVER_is_fresh(*newbuf, sizeof(**newbuf)) && (*newbuf)->data == buf->data + buf->tag_offset && (*newbuf)->data_len == buf->offset - buf->tag_offset && (*newbuf)->data_len > 0 && (*newbuf)->offset == 0 && (*newbuf)->alloc_buf == NULL && (*newbuf)->tag_offset == NOTAG))
;

size_t ares_buf_consume_whitespace(ares_buf_t *buf, ares_bool_t include_linefeed)
__CPROVER_requires(BUF_CONST_WF(buf))
__CPROVER_assigns(buf->offset)
__CPROVER_ensures(BUF_POS_OK(buf) && buf->offset == __CPROVER_old(buf->offset) + __CPROVER_return_value)
;
size_t ares_buf_consume_nonwhitespace(ares_buf_t *buf)
__CPROVER_requires(BUF_CONST_WF(buf))
__CPROVER_assigns(buf->offset)
__CPROVER_ensures(BUF_POS_OK(buf) && buf->offset == __CPROVER_old(buf->offset) + __CPROVER_return_value)
;
size_t ares_buf_consume_line(ares_buf_t *buf, ares_bool_t include_linefeed)
__CPROVER_requires(BUF_CONST_WF(buf))
__CPROVER_assigns(buf->offset)
__CPROVER_ensures(BUF_POS_OK(buf) && buf->offset == __CPROVER_old(buf->offset) + __CPROVER_return_value)
;
size_t ares_buf_consume_charset(ares_buf_t *buf, const unsigned char *charset, size_t len)
__CPROVER_requires(BUF_CONST_WF(buf))
__CPROVER_requires(len <= 64 && (charset == NULL || __CPROVER_is_fresh(charset, len)))
__CPROVER_assigns(buf->offset)
__CPROVER_ensures(BUF_POS_OK(buf) && buf->offset == __CPROVER_old(buf->offset) + __CPROVER_return_value)
;
size_t ares_buf_consume_until_charset(ares_buf_t *buf, const unsigned char *charset, size_t len, ares_bool_t require_charset)
__CPROVER_requires(BUF_CONST_WF(buf))
__CPROVER_requires(len <= 64 && (charset == NULL || __CPROVER_is_fresh(charset, len)))
__CPROVER_assigns(buf->offset)
__CPROVER_ensures(BUF_POS_OK(buf))
__CPROVER_ensures(__CPROVER_return_value == NOTAG ? buf->offset == __CPROVER_old(buf->offset) : buf->offset == __CPROVER_old(buf->offset) + __CPROVER_return_value)
;

size_t ares_buf_len(const ares_buf_t *buf)
__CPROVER_requires(BUF_CONST_WF(buf))
__CPROVER_assigns()
__CPROVER_ensures(__CPROVER_return_value == buf->data_len - buf->offset)
;
const unsigned char *ares_buf_peek(const ares_buf_t *buf, size_t *len)
__CPROVER_requires(BUF_CONST_WF(buf))
__CPROVER_requires(__CPROVER_is_fresh(len, sizeof(*len)))
__CPROVER_assigns(*len)
__CPROVER_ensures(*len == buf->data_len - buf->offset)
__CPROVER_ensures(*len == 0 ? __CPROVER_return_value == NULL : __CPROVER_return_value == buf->data + buf->offset)
;
ares_status_t ares_buf_peek_byte(const ares_buf_t *buf, unsigned char *b)
__CPROVER_requires(BUF_CONST_WF(buf))
__CPROVER_requires(__CPROVER_is_fresh(b, 1))
__CPROVER_assigns(*b)
__CPROVER_ensures((__CPROVER_return_value == ARES_SUCCESS) == (buf->offset < buf->data_len))
__CPROVER_ensures(__CPROVER_return_value == ARES_SUCCESS ==> *b == buf->data[buf->offset])
;
size_t ares_buf_get_position(const ares_buf_t *buf)
__CPROVER_requires(BUF_CONST_WF(buf))
__CPROVER_assigns()
__CPROVER_ensures(__CPROVER_return_value == buf->offset)
;
ares_status_t ares_buf_set_position(ares_buf_t *buf, size_t idx)
__CPROVER_requires(BUF_CONST_WF(buf) && buf->tag_offset == NOTAG)
__CPROVER_assigns(buf->offset)
__CPROVER_ensures(BUF_POS_OK(buf))
__CPROVER_ensures(__CPROVER_return_value == ARES_SUCCESS ? (idx <= buf->data_len && buf->offset == idx) : (idx > buf->data_len && buf->offset == __CPROVER_old(buf->offset)))
;
ares_bool_t ares_buf_begins_with(const ares_buf_t *buf, const unsigned char *data, size_t data_len)
__CPROVER_requires(BUF_CONST_WF(buf))
__CPROVER_requires(data_len <= 64 && (data == NULL || __CPROVER_is_fresh(data, data_len)))
__CPROVER_assigns()
__CPROVER_ensures(__CPROVER_return_value == ARES_TRUE ==> (data_len > 0 && data_len <= buf->data_len - buf->offset))
;

/* ---- harnesses: one per function under contract ----------------------------------------- */
#define H1(name, call) void h_##name(void) { call; }
void h_consume(void) { ares_buf_t *b; size_t n; ares_buf_consume(b, n); }
void h_fetch_be16(void) { ares_buf_t *b; unsigned short *p; ares_buf_fetch_be16(b, p); }
void h_fetch_be32(void) { ares_buf_t *b; unsigned int *p; ares_buf_fetch_be32(b, p); }
void h_fetch_bytes(void) { ares_buf_t *b; unsigned char *p; size_t n; ares_buf_fetch_bytes(b, p, n); }
void h_fetch_bytes_dup(void) { ares_buf_t *b; unsigned char **p; size_t n; ares_bool_t t; ares_buf_fetch_bytes_dup(b, n, t, p); }
void h_fetch_str_dup(void) { ares_buf_t *b; char **p; size_t n; ares_buf_fetch_str_dup(b, n, p); }
void h_tag(void) { ares_buf_t *b; ares_buf_tag(b); }
void h_tag_rollback(void) { ares_buf_t *b; ares_buf_tag_rollback(b); }
void h_tag_clear(void) { ares_buf_t *b; ares_buf_tag_clear(b); }
void h_tag_fetch(void) { ares_buf_t *b; size_t *l; ares_buf_tag_fetch(b, l); }
void h_tag_length(void) { ares_buf_t *b; ares_buf_tag_length(b); }
void h_tag_fetch_bytes(void) { ares_buf_t *b; unsigned char *p; size_t *l; ares_buf_tag_fetch_bytes(b, p, l); }
void h_tag_fetch_string(void) { ares_buf_t *b; char *p; size_t l; ares_buf_tag_fetch_string(b, p, l); }
void h_tag_fetch_strdup(void) { ares_buf_t *b; char **p; ares_buf_tag_fetch_strdup(b, p); }
void h_tag_fetch_constbuf(void) { ares_buf_t *b; ares_buf_t **p; ares_buf_tag_fetch_constbuf(b, p); }
void h_consume_whitespace(void) { ares_buf_t *b; ares_bool_t f; ares_buf_consume_whitespace(b, f); }
void h_consume_nonwhitespace(void) { ares_buf_t *b; ares_buf_consume_nonwhitespace(b); }
void h_consume_line(void) { ares_buf_t *b; ares_bool_t f; ares_buf_consume_line(b, f); }
void h_consume_charset(void) { ares_buf_t *b; const unsigned char *c; size_t n; ares_buf_consume_charset(b, c, n); }
void h_consume_until_charset(void) { ares_buf_t *b; const unsigned char *c; size_t n; ares_bool_t r; ares_buf_consume_until_charset(b, c, n, r); }
void h_len(void) { ares_buf_t *b; ares_buf_len(b); }
void h_peek(void) { ares_buf_t *b; size_t *l; ares_buf_peek(b, l); }
void h_peek_byte(void) { ares_buf_t *b; unsigned char *p; ares_buf_peek_byte(b, p); }
void h_get_position(void) { ares_buf_t *b; ares_buf_get_position(b); }
void h_set_position(void) { ares_buf_t *b; size_t i; ares_buf_set_position(b, i); }
void h_begins_with(void) { ares_buf_t *b; const unsigned char *d; size_t n; ares_buf_begins_with(b, d, n); }

/* ---- external callees of ares_buf.c that live in other files -------------------------------- */
/* ASSUMED: ares_str_isprint(str,len) only reads str[0..len) and returns a boolean (discharged on the real ares_str.c by obligation str.isprint, proofs/buf/str.c) */
ares_bool_t ares_str_isprint(const char *str, size_t len)
{
  __CPROVER_assert(len == 0 || __CPROVER_r_ok(str, len), "ares_str_isprint: str readable for len bytes");
  return nondet_bool() ? ARES_TRUE : ARES_FALSE;
}
