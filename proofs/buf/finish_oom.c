/* C14/C19: ares_buf_finish_str()/ares_buf_finish_bin() of the real src/lib/str/ares_buf.c invalidate the buffer on EVERY outcome:
 * when the one allocation an empty, never-allocated buffer needs fails, nothing is returned and nothing is left behind
 * (memory-leak check); and ares_buf_parse_dns_binstr()/ares_buf_parse_dns_str() never report success without a string. */
#include "alloc.h"
#define memcpy  x_memmove
#define memmove x_memmove
#include "src/lib/str/ares_buf.c"
#undef memcpy
#undef memmove
ares_bool_t ares_str_isprint(const char *str, size_t len) { return nondet_bool() ? ARES_TRUE : ARES_FALSE; }
void h_finish_oom(void)
{
  ares_buf_t *b = ares_buf_create(); if (b == NULL) return;
  size_t n = nondet_size() % 3; for (size_t i = 0; i < 2; i++) if (i < n && ares_buf_append_byte(b, nondet_uchar()) != ARES_SUCCESS) { ares_buf_destroy(b); return; }
  size_t len = 99; _Bool as_str = nondet_bool(); unsigned char *p = as_str ? (unsigned char *)ares_buf_finish_str(b, &len) : ares_buf_finish_bin(b, &len);
  if (p != NULL) { __CPROVER_assert(len == n && (!as_str || p[n] == 0), "C19: the finished data has the appended length (and a terminator for strings)"); free(p); }
  /* p == NULL: the buffer object must be gone as well -- decided by the memory-leak check at the end of the run */
}
void h_binstr_oom(void)
{
  static unsigned char msg[4]; for (int i = 0; i < 4; i++) msg[i] = nondet_uchar(); size_t dl = 1 + nondet_size() % 4; size_t rem = nondet_size() % 6;
  ares_buf_t *b = ares_buf_create_const(msg, dl); if (b == NULL) return;
  unsigned char *out = NULL; size_t out_len = 0; _Bool as_str = nondet_bool();
  ares_status_t st = as_str ? ares_buf_parse_dns_str(b, rem, (char **)&out) : ares_buf_parse_dns_binstr(b, rem, &out, &out_len);
  if (st == ARES_SUCCESS) { __CPROVER_assert(out != NULL, "C14: a character-string is reported as parsed only when its text exists (an allocation failure is an error, not an empty success)"); __CPROVER_assert(out[msg[0]] == 0, "C04/C19: the text ends after the number of bytes the length octet says"); free(out); }
  else __CPROVER_assert(out == NULL, "C14: no text is handed out on failure");
  ares_buf_destroy(b);
}
