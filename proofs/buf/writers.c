/* C19/C03/C14/C20: the writer half of the real src/lib/str/ares_buf.c.
 * P tier: geometry contracts for every dynamic buffer with alloc_buf_len <= VCAP (70000).
 * B tier (-DVERIF_EXACT_LIBC): byte contents, exact byte-loop libc models, state-constructed buffers of <= 8 bytes. */
#include "alloc.h"
#ifndef VERIF_EXACT_LIBC
#define memcpy  v_memcpy
#define memmove v_memmove
#else
#define memcpy  x_memmove
#define memmove x_memmove
#endif
#include "src/lib/str/ares_buf.c"
#undef memcpy
#undef memmove
#include "buf_spec.h"
ares_bool_t ares_str_isprint(const char *str, size_t len) { return nondet_bool() ? ARES_TRUE : ARES_FALSE; }

#define LEN(b)      ((b)->data_len - (b)->offset)
#define TAGDIST(b)  ((b)->offset - (b)->tag_offset)
#define OLD_LEN(b)  (__CPROVER_old((b)->data_len) - __CPROVER_old((b)->offset))
#define OLD_TAGDIST(b) (__CPROVER_old((b)->offset) - __CPROVER_old((b)->tag_offset))
/* view preserved: unread length, tag presence and the distance tag..offset (the tagged bytes stay in front of the read position) */
#define VIEW_KEPT(b) (LEN(b) == OLD_LEN(b) && ((b)->tag_offset == NOTAG) == (__CPROVER_old((b)->tag_offset) == NOTAG) && \
                      ((b)->tag_offset == NOTAG || TAGDIST(b) == OLD_TAGDIST(b)))
#define DYN_ASSIGNS(b) (b)->data, (b)->data_len, (b)->offset, (b)->tag_offset, (b)->alloc_buf, (b)->alloc_buf_len; (b)->alloc_buf != NULL: __CPROVER_object_whole((b)->alloc_buf)

#ifndef VERIF_EXACT_LIBC
void ares_buf_reclaim(ares_buf_t *buf)
__CPROVER_requires(BUF_DYN_WF(buf))
__CPROVER_assigns(DYN_ASSIGNS(buf))
__CPROVER_ensures(BUF_DYN_OK(buf) && VIEW_KEPT(buf))
__CPROVER_ensures(buf->alloc_buf == __CPROVER_old(buf->alloc_buf) && buf->alloc_buf_len == __CPROVER_old(buf->alloc_buf_len))
/* everything in front of the tag (or of the read position when untagged) is reclaimed, nothing behind it */
__CPROVER_ensures(buf->alloc_buf != NULL ==> (buf->tag_offset == NOTAG ? buf->offset == 0 : buf->tag_offset == 0))
;
void h_reclaim(void) { ares_buf_t *b; ares_buf_reclaim(b); }

static ares_status_t ares_buf_ensure_space(ares_buf_t *buf, size_t needed_size)
__CPROVER_requires(BUF_DYN_WF(buf) && needed_size <= VCAP)
__CPROVER_assigns(DYN_ASSIGNS(buf))
__CPROVER_frees(buf->alloc_buf)
__CPROVER_ensures(BUF_POS_OK(buf) && VIEW_KEPT(buf))
__CPROVER_ensures(__CPROVER_return_value == ARES_SUCCESS || __CPROVER_return_value == ARES_ENOMEM)
/* success: room for needed_size bytes plus the terminator that ares_buf_finish_str() will add */
__CPROVER_ensures(__CPROVER_return_value == ARES_SUCCESS ==> (buf->alloc_buf != NULL && buf->data == buf->alloc_buf && buf->alloc_buf_len - buf->data_len > needed_size && buf->data_len < buf->alloc_buf_len && __CPROVER_rw_ok(buf->alloc_buf, buf->alloc_buf_len)))
/* failure-atomic (C14): ENOMEM leaves a well-formed buffer with the same view */
__CPROVER_ensures(__CPROVER_return_value != ARES_SUCCESS ==> BUF_DYN_OK(buf))
;
void h_ensure_space(void) { ares_buf_t *b; size_t n; ares_buf_ensure_space(b, n); }

ares_status_t ares_buf_append(ares_buf_t *buf, const unsigned char *data, size_t data_len)
__CPROVER_requires(BUF_DYN_WF(buf) && data_len <= VCAP && (data == NULL || __CPROVER_is_fresh(data, data_len)))
__CPROVER_assigns(DYN_ASSIGNS(buf))
__CPROVER_frees(buf->alloc_buf)
__CPROVER_ensures(BUF_DYN_OK(buf))
__CPROVER_ensures(__CPROVER_return_value == ARES_SUCCESS || __CPROVER_return_value == ARES_ENOMEM || __CPROVER_return_value == ARES_EFORMERR)
__CPROVER_ensures(__CPROVER_return_value == ARES_SUCCESS ==> LEN(buf) == OLD_LEN(buf) + data_len)
__CPROVER_ensures(__CPROVER_return_value != ARES_SUCCESS ==> LEN(buf) == OLD_LEN(buf))
__CPROVER_ensures(((buf)->tag_offset == NOTAG) == (__CPROVER_old((buf)->tag_offset) == NOTAG) && ((buf)->tag_offset == NOTAG || TAGDIST(buf) == OLD_TAGDIST(buf)))
__CPROVER_ensures((__CPROVER_return_value == ARES_EFORMERR) == (data == NULL && data_len != 0))
;
void h_append(void) { ares_buf_t *b; const unsigned char *d; size_t n; ares_buf_append(b, d, n); }

ares_status_t ares_buf_set_length(ares_buf_t *buf, size_t len)
__CPROVER_requires(BUF_DYN_WF(buf))
__CPROVER_assigns(buf->data_len)
/* C03 length discipline: never exposes bytes beyond the allocation (and keeps the spare terminator byte) */
__CPROVER_ensures(__CPROVER_return_value == ARES_SUCCESS ==> (buf->data_len == len + buf->offset && buf->alloc_buf != NULL && buf->data_len < buf->alloc_buf_len))
__CPROVER_ensures(__CPROVER_return_value != ARES_SUCCESS ==> buf->data_len == __CPROVER_old(buf->data_len))
;
void h_set_length(void) { ares_buf_t *b; size_t n; ares_buf_set_length(b, n); }

char *ares_buf_finish_str(ares_buf_t *buf, size_t *len)
__CPROVER_requires(BUF_DYN_WF(buf) && (len == NULL || __CPROVER_is_fresh(len, sizeof(*len))))
__CPROVER_assigns(len != NULL: *len; DYN_ASSIGNS(buf))
__CPROVER_frees(buf, buf->alloc_buf)
__CPROVER_ensures(__CPROVER_return_value != NULL ==> (len == NULL || (*len == OLD_LEN(buf) + (__CPROVER_old(buf->tag_offset) == NOTAG ? 0 : OLD_TAGDIST(buf)))))
;
void h_finish_str(void) { ares_buf_t *b; size_t *l; ares_buf_finish_str(b, l); }

unsigned char *ares_buf_append_start(ares_buf_t *buf, size_t *len)
__CPROVER_requires(BUF_DYN_WF(buf) && __CPROVER_is_fresh(len, sizeof(*len)) && *len <= VCAP)
__CPROVER_assigns(*len, DYN_ASSIGNS(buf))
__CPROVER_frees(buf->alloc_buf)
__CPROVER_ensures(__CPROVER_return_value != NULL ==> (*len >= __CPROVER_old(*len) && __CPROVER_return_value == buf->alloc_buf + buf->data_len && *len == buf->alloc_buf_len - buf->data_len - 1 && __CPROVER_w_ok(__CPROVER_return_value, *len)))
__CPROVER_ensures(BUF_POS_OK(buf) && VIEW_KEPT(buf))
;
void h_append_start(void) { ares_buf_t *b; size_t *l; ares_buf_append_start(b, l); }

#else /* ---------------------------------- B tier: contents ------------------------------------------ */
#define BM 8
static ares_buf_t g_b; static unsigned char g_unread[BM + 8], g_tagged[BM + 8]; static size_t g_len, g_taglen; static _Bool g_hastag;
/* an arbitrary well-formed dynamic buffer with alloc_buf_len <= BM; remembers its view (tagged bytes, unread bytes) */
static void mk_buf(void)
{
  size_t alloc = nondet_bool() ? BM : 0, dl = nondet_size(), off = nondet_size(), tag = nondet_size(); _Bool hastag = nondet_bool();
  __CPROVER_assume(alloc <= BM && (alloc == 0 ? (dl == 0 && !hastag) : dl < alloc) && off <= dl && tag <= off);
  g_b.alloc_buf = NULL; g_b.alloc_buf_len = alloc; g_b.data_len = dl; g_b.offset = off; g_b.tag_offset = hastag ? tag : SIZE_MAX;
  if (alloc > 0) { g_b.alloc_buf = malloc(BM); __CPROVER_assume(g_b.alloc_buf != NULL); }
  g_b.data = g_b.alloc_buf;
  for (size_t i = 0; i < BM; i++) if (i < dl) g_b.alloc_buf[i] = nondet_uchar();
  g_len = dl - off; g_hastag = hastag; g_taglen = hastag ? off - tag : 0;
  for (size_t i = 0; i < BM; i++) { if (i < g_len) g_unread[i] = g_b.alloc_buf[off + i]; if (i < g_taglen) g_tagged[i] = g_b.alloc_buf[tag + i]; }
}
static void check_view(size_t extra, const unsigned char *src)
{
  size_t l = 0; const unsigned char *p = ares_buf_peek(&g_b, &l);
  __CPROVER_assert(l == g_len + extra, "C19: unread length = old unread + appended");
  for (size_t i = 0; i < BM + 4; i++) if (i < l) __CPROVER_assert(p[i] == (i < g_len ? g_unread[i] : src[i - g_len]), "C19: buffer returns exactly the bytes appended minus those consumed, in order");
  size_t tl = 0; const unsigned char *t = ares_buf_tag_fetch(&g_b, &tl);
  __CPROVER_assert((t != NULL) == g_hastag, "C19: tag survives");
  if (t != NULL) { __CPROVER_assert(tl == g_taglen, "C19: tagged length survives"); for (size_t i = 0; i < BM; i++) if (i < tl) __CPROVER_assert(t[i] == g_tagged[i], "C19: tagged bytes survive compaction and growth"); }
}
void hb_append(void)
{
  unsigned char src[4]; size_t n = nondet_size(); __CPROVER_assume(n <= 4); for (int i = 0; i < 4; i++) src[i] = nondet_uchar();
  mk_buf();
  ares_status_t rv = ares_buf_append(&g_b, src, n);
  __CPROVER_assert(rv == ARES_SUCCESS || rv == ARES_ENOMEM, "C14: append fails only for lack of memory");
  check_view(rv == ARES_SUCCESS ? n : 0, src);
  if (g_hastag) { ares_status_t r = ares_buf_tag_rollback(&g_b); __CPROVER_assert(r == ARES_SUCCESS && ares_buf_len(&g_b) == g_taglen + g_len + (rv == ARES_SUCCESS ? n : 0), "C19: rollback restores the tagged position"); }
}
void hb_reclaim(void) { mk_buf(); ares_buf_reclaim(&g_b); check_view(0, NULL); }
void hb_be(void)
{
  unsigned short a = (unsigned short)nondet_size(); unsigned int b = (unsigned int)nondet_size(); _Bool w16 = nondet_bool();
  memset(&g_b, 0, sizeof g_b); g_b.tag_offset = SIZE_MAX; /* a fresh buffer as ares_buf_create() leaves it */
  ares_status_t rv = w16 ? ares_buf_append_be16(&g_b, a) : ares_buf_append_be32(&g_b, b);
  if (rv != ARES_SUCCESS) return;
  /* C03 codec pair lemma: the real writer followed by the real reader is the identity */
  if (w16) { unsigned short r; __CPROVER_assert(ares_buf_fetch_be16(&g_b, &r) == ARES_SUCCESS && r == a, "C03: fetch_be16(append_be16(x)) == x"); }
  else { unsigned int r; __CPROVER_assert(ares_buf_fetch_be32(&g_b, &r) == ARES_SUCCESS && r == b, "C03: fetch_be32(append_be32(x)) == x"); }
  __CPROVER_assert(ares_buf_len(&g_b) == 0, "C03: nothing left over");
}
#endif
