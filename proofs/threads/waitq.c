/* C11: "waiting for an empty queue returns success only when no request is outstanding": the real
 * ares_queue_wait_empty() / ares_queue_notify_empty() of src/lib/util/ares_threads.c.  The thread primitives are
 * link-time stand-ins: while the caller sleeps on the condition, other threads change the queue arbitrarily, and
 * wake-ups may be spurious. */
#include "nd.h"
#include <stdlib.h>
#include <string.h>
#include "src/lib/util/ares_threads.c"
#include "waitq_ghost.h"
size_t ares_llist_len(const ares_llist_t *l) { __CPROVER_assert(g_mutex == 1, "C11: the request list is inspected with the channel lock held"); return g_qlen; }
void ares_tvnow(ares_timeval_t *now) { now->sec = nondet_i64() & 0xffffffff; now->usec = nondet_uint() % 1000000; }
void ares_timeval_remaining(ares_timeval_t *r, const ares_timeval_t *now, const ares_timeval_t *t) { r->sec = nondet_i64() & 0xfffff; r->usec = nondet_uint() % 1000000; }
void h_wait_empty(void)
{
  static ares_channel_t ch; g_mutex = 0; g_qlen = nondet_size(); g_waits = g_broadcasts = 0; int tmo = nondet_int();
  ares_status_t rv = ares_queue_wait_empty(&ch, tmo);
  __CPROVER_assert(g_mutex == 0, "C11: the lock is released on return");
  if (rv == ARES_SUCCESS) __CPROVER_assert(g_qlen_at_unlock == 0, "C11: waiting for an empty queue returns success only when no request is outstanding");
  /* notify side */
  g_mutex = 1; g_qlen = nondet_size(); g_broadcasts = 0; ares_queue_notify_empty(&ch);
  __CPROVER_assert((g_broadcasts == 1) == (g_qlen == 0), "C11: waiters are woken exactly when the queue is empty");
}
