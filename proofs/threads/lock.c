/* C11 (sequential locking protocol only): every public entry point takes the channel lock and gives it back on EVERY
 * path, and touches shared channel state only while holding it.  The entry point's real file is included (LK_FILE);
 * callees in other files are nondeterministic (any return value), which over-approximates every failure path. */
#include "nd.h"
#include <stdlib.h>
#include <string.h>
#include LK_FILE
#include "ares_data.h"
int g_depth;
void ares_channel_lock(const ares_channel_t *c) { g_depth++; }
void ares_channel_unlock(const ares_channel_t *c) { __CPROVER_assert(g_depth > 0, "C11: the channel lock is released only while held"); g_depth--; }
/* shared state readers: must run under the lock */
size_t ares_llist_len(const ares_llist_t *l) { __CPROVER_assert(g_depth > 0, "C11: the request list is read under the channel lock"); return nondet_size(); }
size_t ares_slist_len(const ares_slist_t *l) { __CPROVER_assert(g_depth > 0, "C11: the server list is read under the channel lock"); return nondet_size(); }
/* ordered lists (servers, timeouts) hold any number of elements: the walk is cut by the unwinding bound */
static char sn_tok; static union { ares_server_t s; ares_query_t q; } g_elem;
ares_slist_node_t *ares_slist_node_first(const ares_slist_t *l) { __CPROVER_assert(g_depth > 0, "C11: the server list / timeout index is read under the channel lock"); return nondet_bool() ? (ares_slist_node_t *)&sn_tok : NULL; }
ares_slist_node_t *ares_slist_node_next(ares_slist_node_t *n) { __CPROVER_assert(g_depth > 0, "C11: the server list / timeout index is walked under the channel lock"); return nondet_bool() ? (ares_slist_node_t *)&sn_tok : NULL; }
void *ares_slist_node_val(ares_slist_node_t *n) { return n ? &g_elem : NULL; }
void *ares_slist_first_val(const ares_slist_t *l) { __CPROVER_assert(g_depth > 0, "C11: the server list / timeout index is read under the channel lock"); return nondet_bool() ? &g_elem : NULL; }
#ifdef LK_SYSCONFIG
/* system configuration sources fill the scratch configuration with anything */
static char t_sc, t_dom, t_look;
ares_status_t ares_init_sysconfig_files(const ares_channel_t *channel, ares_sysconfig_t *sc, ares_bool_t b) { sc->sconfig = nondet_bool() ? (ares_llist_t *)&t_sc : NULL; sc->domains = nondet_bool() ? (char **)&t_dom : NULL; sc->ndomains = 1; sc->lookups = nondet_bool() ? &t_look : NULL; sc->tries = nondet_size(); sc->timeout_ms = nondet_size(); return nondet_bool() ? ARES_SUCCESS : ARES_ENOMEM; }
#endif
void *ares_malloc(size_t n) { if (nondet_bool()) return NULL; void *p = malloc(n ? n : 1); __CPROVER_assume(p != NULL); return p; }
void *ares_malloc_zero(size_t n) { if (nondet_bool()) return NULL; void *p = calloc(1, n ? n : 1); __CPROVER_assume(p != NULL); return p; }
void ares_free(void *p) { /* memory is not the subject of the locking obligations */ }
void *ares_malloc_data(ares_datatype t) { if (nondet_bool()) return NULL; void *p = calloc(1, 256); __CPROVER_assume(p != NULL); return p; }
void ares_free_data(void *p) { }
static void cb_stub(void *arg, ares_status_t status, size_t timeouts, const ares_dns_record_t *dnsrec) { }
static void host_cb_stub(void *arg, int status, int timeouts, struct hostent *h) { }
static void ni_cb_stub(void *arg, int status, int timeouts, char *node, char *service) { }
static void ai_cb_stub(void *arg, int status, int timeouts, struct ares_addrinfo *res) { }
#ifdef LK_CANCEL
static ares_query_t g_query; static char node_tok;
ares_llist_node_t *ares_llist_node_first(ares_llist_t *l) { return nondet_bool() ? (ares_llist_node_t *)&node_tok : NULL; }
ares_llist_node_t *ares_llist_node_next(ares_llist_node_t *n) { return nondet_bool() ? (ares_llist_node_t *)&node_tok : NULL; }
void *ares_llist_node_claim(ares_llist_node_t *n) { g_query.callback = cb_stub; return &g_query; }
ares_llist_t *ares_llist_create(ares_llist_destructor_t d) { static char l; return nondet_bool() ? (ares_llist_t *)&l : NULL; }
#endif
void h_lock_balance(void)
{
  static ares_channel_t ch; ares_channel_t *channel = nondet_bool() ? &ch : NULL; g_depth = 0;
  LK_CALL;
  __CPROVER_assert(g_depth == 0, "C11: the entry point returns with the channel lock released on every path (a held lock blocks every other thread for ever)");
}
