/* C07/C11: the loop body of the built-in event thread (real ares_event_thread() of src/lib/event/ares_event_thread.c).
 * Liveness of two threads is NOT decided here; what is checked are the sequential guarantees the design relies on:
 * a pending deadline never turns into an unlimited wait and is never overslept by more than 1 ms, timers are processed
 * after every wake-up, and the thread never calls into the channel while holding its own mutex. */
#include "nd.h"
#include <stdlib.h>
#include <string.h>
#include "src/lib/event/ares_event_thread.c"
#include "evthread_ghost.h"
static struct timeval g_hint; static _Bool g_have_hint; static unsigned long g_wait_ms; static int g_waits, g_procfds, g_timeouts_computed; static ares_event_thread_t g_e; static char ch_tok;
void ares_thread_mutex_lock(ares_thread_mutex_t *m) { __CPROVER_assert(g_evmutex == 0, "C11: the event thread does not re-lock its own mutex"); g_evmutex = 1; }
void ares_thread_mutex_unlock(ares_thread_mutex_t *m) { __CPROVER_assert(g_evmutex == 1, "C11: unlock only while held"); g_evmutex = 0; }
struct timeval *ares_timeout(const ares_channel_t *channel, struct timeval *maxtv, struct timeval *tv)
{ __CPROVER_assert(g_evmutex == 0, "C11: ares_timeout() (takes the channel lock) is called without the event mutex"); __CPROVER_assert(g_updates_done, "C07: the hint is computed after pending updates were applied"); g_timeouts_computed++;
  if (!g_have_hint) return NULL; *tv = g_hint; return tv; }
static size_t wait_stub(ares_event_thread_t *e, unsigned long timeout_ms)
{ __CPROVER_assert(g_evmutex == 0, "C11: the event thread does not sleep holding its mutex"); g_waits++; g_wait_ms = timeout_ms; if (nondet_bool()) e->isup = ARES_FALSE; return 0; }
static const ares_event_sys_t g_sys = { "stub", NULL, NULL, NULL, NULL, NULL, wait_stub };
void ares_process_pending_write(ares_channel_t *c) { __CPROVER_assert(g_evmutex == 0, "C11: pending writes are flushed without the event mutex"); }
ares_status_t ares_process_fds(ares_channel_t *c, const ares_fd_events_t *ev, size_t n, unsigned int flags) { __CPROVER_assert(g_evmutex == 0, "C11: the channel is processed without the event mutex"); __CPROVER_assert(ev == NULL && n == 0 && flags == ARES_PROCESS_FLAG_NONE, "C07: timers are processed after every wake-up"); g_procfds++; return ARES_SUCCESS; }
void h_event_loop(void)
{
  g_e.isup = ARES_TRUE; g_e.ev_sys = &g_sys; g_e.channel = (ares_channel_t *)&ch_tok; g_e.process_pending_write = nondet_bool() ? ARES_TRUE : ARES_FALSE;
  g_have_hint = nondet_bool(); g_hint.tv_sec = nondet_i64(); g_hint.tv_usec = nondet_i64();
  /* what ares_timeout() guarantees (process.timeout_hint): non-negative, normalised */
  __CPROVER_assume(g_hint.tv_sec >= 0 && g_hint.tv_sec < (1LL << 40) && g_hint.tv_usec >= 0 && g_hint.tv_usec < 1000000);
  g_evmutex = 0; g_waits = g_procfds = g_timeouts_computed = 0; g_updates_done = 0; g_cleanup = 0;
  ares_event_thread(&g_e);
  __CPROVER_assert(g_evmutex == 0 && g_cleanup == 1, "C11: the thread leaves with its mutex released, after cleaning up under it");
  if (g_waits == 1) {
    if (!g_have_hint) __CPROVER_assert(g_wait_ms == 0, "C07: without outstanding queries the thread waits for events only");
    else {
      unsigned long ms = (unsigned long)g_hint.tv_sec * 1000 + (unsigned long)g_hint.tv_usec / 1000;
      __CPROVER_assert(g_wait_ms != 0, "C07: a pending deadline NEVER becomes an unlimited wait (0 means wait for ever)");
      __CPROVER_assert(g_wait_ms >= ms && g_wait_ms <= ms + 1, "C07: the thread sleeps until the deadline, overshooting by at most one millisecond");
    }
  }
  __CPROVER_assert(g_timeouts_computed == g_waits, "C07: the hint is recomputed before every wait");
}
