/* ASSUMED: stand-ins for the update queue processing and the final cleanup of the event thread (both run under the event mutex) */
#include "ares_private.h"
#include "evthread_ghost.h"
struct ares_event_thread;
void ares_event_process_updates(struct ares_event_thread *e) { __CPROVER_assert(g_evmutex == 1, "C11: the update queue is processed under the event mutex"); g_updates_done = 1; }
void ares_event_thread_cleanup(struct ares_event_thread *e) { __CPROVER_assert(g_evmutex == 1, "C11: cleanup under the event mutex"); g_cleanup++; }
