#ifndef WAITQ_GHOST_H
#define WAITQ_GHOST_H
#ifdef GHOST_DEFINE
#define G
#else
#define G extern
#endif
G int g_mutex, g_waits, g_broadcasts; G size_t g_qlen, g_qlen_at_unlock;
#endif
