/* stand-ins for the two heavy same-file callees of the server-list setters: any status; ares_servers_update() touches the server
 * list, so it must run under the channel lock */
#include "ares_private.h"
#include "nd.h"
extern int g_depth;
ares_status_t ares_sconfig_append_fromstr(const ares_channel_t *channel, ares_llist_t **sconfig, const char *str, ares_bool_t ignore_invalid) { return (ares_status_t)(nondet_uint() % 26); }
ares_status_t ares_servers_update(ares_channel_t *channel, ares_llist_t *server_list, ares_bool_t user_specified) { __CPROVER_assert(g_depth > 0, "C11: the server list is replaced under the channel lock"); return (ares_status_t)(nondet_uint() % 26); }
