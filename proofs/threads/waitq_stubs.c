/* ASSUMED: mutex / condition variable stand-ins with a ghost lock state: a condition wait releases the lock, lets other threads change the queue length arbitrarily, and re-acquires it; a timed wait may also time out; wake-ups may be spurious */
#include "ares_private.h"
#include "waitq_ghost.h"
size_t nondet_size(void); _Bool nondet_bool(void);
ares_bool_t ares_threadsafety(void) { return ARES_TRUE; }
void ares_thread_mutex_lock(ares_thread_mutex_t *m) { __CPROVER_assert(g_mutex == 0, "C11: no self-deadlock on the channel lock"); g_mutex = 1; }
void ares_thread_mutex_unlock(ares_thread_mutex_t *m) { __CPROVER_assert(g_mutex == 1, "C11: unlock only while held"); g_qlen_at_unlock = g_qlen; g_mutex = 0; }
ares_status_t ares_thread_cond_wait(ares_thread_cond_t *c, ares_thread_mutex_t *m) { __CPROVER_assert(g_mutex == 1, "C11: condition wait with the lock held"); g_waits++; g_qlen = nondet_size(); return ARES_SUCCESS; }
ares_status_t ares_thread_cond_timedwait(ares_thread_cond_t *c, ares_thread_mutex_t *m, unsigned long ms) { __CPROVER_assert(g_mutex == 1, "C11: condition wait with the lock held"); g_waits++; g_qlen = nondet_size(); return nondet_bool() ? ARES_ETIMEOUT : ARES_SUCCESS; }
void ares_thread_cond_broadcast(ares_thread_cond_t *c) { g_broadcasts++; }
