#ifndef EVTHREAD_GHOST_H
#define EVTHREAD_GHOST_H
#ifdef GHOST_DEFINE
#define G
#else
#define G extern
#endif
G int g_evmutex, g_cleanup; G _Bool g_updates_done;
#endif
