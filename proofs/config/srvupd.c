/* C09/C16: ares_servers_update() of the real src/lib/ares_update_servers.c: the servers end up in the order of the list given:
 * every entry that is not a duplicate gets the next position; an existing server whose position changed is re-sorted under its
 * NEW position (the ordered server list is keyed by (failures, position), so the key must be final when the node is re-inserted);
 * stale servers are dropped afterwards, the cache is emptied when the set changed, the list is marked user-specified when asked.
 * ASSUMED: duplicate detection / matching of existing servers / creation are ghosts of the harness (own obligations). */
#include "nd.h"
#include <stdlib.h>
#include <string.h>
#include "src/lib/ares_update_servers.c"
#define SMAX 3
_Bool su_dup[SMAX], su_known[SMAX], su_oom; char su_cfg_node[SMAX], su_snode[SMAX]; int su_created, su_create_idx[SMAX], su_stale_calls, su_trim_calls; size_t su_cur;
static size_t g_n; static ares_server_t g_srv[SMAX]; static ares_sconfig_t g_cfg[SMAX]; static int g_reinserted[SMAX], g_flush; static size_t g_reinsert_key[SMAX];
ares_llist_node_t *ares_llist_node_first(ares_llist_t *l) { su_cur = 0; return g_n ? (ares_llist_node_t *)&su_cfg_node[0] : NULL; }
ares_llist_node_t *ares_llist_node_next(ares_llist_node_t *n) { size_t i = (size_t)((char *)n - su_cfg_node); su_cur = i + 1; return i + 1 < g_n ? (ares_llist_node_t *)&su_cfg_node[i + 1] : NULL; }
void *ares_llist_node_val(ares_llist_node_t *n) { return &g_cfg[(char *)n - su_cfg_node]; }
void *ares_slist_node_val(ares_slist_node_t *n) { return &g_srv[(char *)n - su_snode]; }
void ares_slist_node_reinsert(ares_slist_node_t *n) { size_t i = (size_t)((char *)n - su_snode); g_reinserted[i]++; g_reinsert_key[i] = g_srv[i].idx; }
void ares_qcache_flush(ares_qcache_t *c) { g_flush++; }
size_t ares_strlen(const char *s) { return 0; }
void h_servers_update(void)
{
  static ares_channel_t ch; ch.flags = nondet_uint(); ch.optmask = 0; g_n = nondet_size() % (SMAX + 1); su_oom = nondet_bool(); su_created = su_stale_calls = su_trim_calls = g_flush = 0; ares_bool_t user = nondet_bool() ? ARES_TRUE : ARES_FALSE;
  for (int i = 0; i < SMAX; i++) { su_dup[i] = nondet_bool(); su_known[i] = nondet_bool(); g_srv[i].idx = nondet_size() % 8; g_reinserted[i] = 0; su_create_idx[i] = -1; }
  ares_status_t rv = ares_servers_update(&ch, (ares_llist_t *)&su_cfg_node[0], user);
  if (rv != ARES_SUCCESS) { __CPROVER_assert(rv == ARES_ENOMEM && su_oom, "C14: the update fails only for lack of memory"); return; }
  size_t pos = 0;
  for (size_t i = 0; i < SMAX; i++) if (i < g_n && !su_dup[i]) {
    if (su_known[i]) {
      __CPROVER_assert(g_srv[i].idx == pos, "C09/C16: an existing server takes the position it has in the new list");
      __CPROVER_assert(g_reinserted[i] == 0 || g_reinsert_key[i] == pos, "C09: a server whose position changed is re-sorted under its NEW position (the key is final when the node is re-inserted into the ordered list)");
    } else __CPROVER_assert(su_create_idx[i] == (int)pos, "C09/C16: a new server is created at its position in the new list");
    pos++;
  }
  __CPROVER_assert(su_stale_calls == 1, "C16: servers that are no longer listed are removed");
  __CPROVER_assert(su_trim_calls == ((ch.flags & ARES_FLAG_PRIMARY) ? 1 : 0), "C09: only the primary server is kept when asked");
  __CPROVER_assert(((ch.optmask & ARES_OPT_SERVERS) != 0) == (user == ARES_TRUE), "C16: a list supplied by the application is remembered as explicit");
  if (su_created > 0) __CPROVER_assert(g_flush == 1, "C08: a changed server set empties the cache");
}
