/* C15/C14: the line loop of the real ares_parse_hosts() (src/lib/ares_hosts_file.c): whatever the lines look like, every
 * entry object is released or handed to the hosts table exactly once (no leak, no double release), bad lines are skipped. */
#include "nd.h"
#include <stdlib.h>
#include <string.h>
#include "src/lib/ares_hosts_file.c"
#include "hosts_ghost.h"
static char buf_tok; static size_t g_lines_left;
ares_buf_t *ares_buf_create(void) { return nondet_bool() ? NULL : (ares_buf_t *)&buf_tok; }
void ares_buf_destroy(ares_buf_t *b) {}
ares_status_t ares_buf_load_file(const char *fn, ares_buf_t *b) { return nondet_bool() ? ARES_ENOTFOUND : ARES_SUCCESS; }
size_t ares_buf_len(const ares_buf_t *b) { return g_lines_left; }
size_t ares_buf_consume_whitespace(ares_buf_t *b, ares_bool_t lf) { if (g_lines_left && nondet_bool()) g_lines_left--; return 0; } /* trailing blank content may vanish */
ares_bool_t ares_buf_begins_with(const ares_buf_t *b, const unsigned char *d, size_t l) { return nondet_bool() ? ARES_TRUE : ARES_FALSE; }
size_t ares_buf_consume_line(ares_buf_t *b, ares_bool_t lf) { if (g_lines_left) g_lines_left--; return 1; }
void h_parse_hosts(void)
{
  ares_hosts_file_t *out = NULL; g_lines_left = nondet_size() % 4; hosts_ghost_reset();
  for (int i = 0; i < 4; i++) { g_ip_status[i] = (ares_status_t)(nondet_uint() % 26); g_hn_status[i] = (ares_status_t)(nondet_uint() % 26); g_add_status[i] = nondet_bool() ? ARES_SUCCESS : ARES_ENOMEM; }
  ares_status_t rv = ares_parse_hosts("f", &out);
  for (int i = 0; i < 4; i++) __CPROVER_assert(g_state[i] != E_LIVE, "C15/C14: no entry object is leaked, whatever the file contains");
  __CPROVER_assert((rv == ARES_SUCCESS) == (out != NULL), "C15: success comes with a hosts table, failure with none");
  __CPROVER_assert(rv == ARES_SUCCESS ? g_hf_destroyed == 0 : (g_hf_created == g_hf_destroyed), "C14: the table is released on failure, kept on success");
}
