#ifndef HOSTS_GHOST_H
#define HOSTS_GHOST_H
#ifdef GHOST_DEFINE
#define G
#else
#define G extern
#endif
enum { E_NONE = 0, E_LIVE, E_DESTROYED, E_OWNED };
G int g_state[4], g_nent, g_hf_created, g_hf_destroyed, g_ip_calls, g_hn_calls, g_add_calls; G ares_status_t g_ip_status[4], g_hn_status[4], g_add_status[4]; G char g_ent[4]; G char hf_tok;
#ifdef GHOST_DEFINE
static void hosts_ghost_reset(void) { for (int i = 0; i < 4; i++) g_state[i] = E_NONE; g_nent = g_hf_created = g_hf_destroyed = g_ip_calls = g_hn_calls = g_add_calls = 0; }
#endif
#endif
