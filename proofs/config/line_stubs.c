/* ASSUMED: stand-ins for the per-keyword handlers of ares_sysconfig_parse_resolv_line(), each with the status range its own code establishes: config_search / config_lookup / ares_sysconfig_set_options: SUCCESS or ENOMEM; ares_parse_sortlist: any status */
#include "ares_private.h"
#include "config_ghost.h"
#include <string.h>
static ares_status_t two(int i) { g_calls[i]++; return g_ret[i] == ARES_ENOMEM ? ARES_ENOMEM : ARES_SUCCESS; }
ares_status_t config_search(ares_sysconfig_t *s, const char *str, size_t max) { return two(0); }
ares_status_t config_lookup(ares_sysconfig_t *s, ares_buf_t *buf, const char *sep) { return two(1); }
ares_status_t ares_parse_sortlist(struct apattern **sortlist, size_t *nsort, const char *str) { g_calls[2]++; return g_ret[2]; }
ares_status_t ares_sysconfig_set_options(ares_sysconfig_t *s, const char *str) { return two(4); }
/* the value of the line: present, empty after trimming, or not fetchable */
ares_status_t buf_fetch_string(ares_buf_t *buf, char *str, size_t len) { if (g_value_mode == 2) return ARES_EBADSTR; if (g_value_mode == 1) { str[0] = 0; return ARES_SUCCESS; } strcpy(str, "v"); return ARES_SUCCESS; }
