/* C16: options saved from a channel and used to initialise a new one give the same effective settings -- the real
 * ares_save_options() and ares_init_by_options() of src/lib/ares_options.c, composed:
 *     A = init_by_options(base, O1, m1);  (O2, m2) = save_options(A);  B = init_by_options(base, O2, m2);  A == B
 * for every option structure O1 and mask m1 that initialisation accepts.  Without -DARRAYS the domain / sortlist bits are off
 * and the code is loop free (complete); with -DARRAYS they carry <= 2 elements (bounded).  The IPv4 server array
 * (ARES_OPT_SERVERS) is excluded: the server list is carried by the server-identity / CSV obligations. */
#include "nd.h"
#include <stdlib.h>
#include <string.h>
#include "src/lib/ares_options.c"
/* ASSUMED: ares_strdup() returns a copy with the same content (modelled as the same pointer) or NULL; ares_malloc fails at will */
static _Bool g_oom;
char *ares_strdup(const char *s) { if (s == NULL || (g_oom && nondet_bool())) return NULL; return (char *)s; }
void *ares_malloc(size_t n) { if (g_oom && nondet_bool()) return NULL; __CPROVER_assert(n <= 2 * sizeof(struct apattern), "allocation sized from the element count"); void *p = malloc(2 * sizeof(struct apattern)); __CPROVER_assume(p != NULL); return p; }
void *ares_malloc_zero(size_t n) { if (g_oom && nondet_bool()) return NULL; __CPROVER_assert(n <= 2 * sizeof(char *), "allocation sized from the element count"); void *p = calloc(2, sizeof(char *)); __CPROVER_assume(p != NULL); return p; }
void ares_free(void *p) { }
size_t ares_slist_len(const ares_slist_t *l) { return 1; }
ares_bool_t ares_threadsafety(void) { return nondet_bool() ? ARES_TRUE : ARES_FALSE; }
static char s_lookups, s_resolv, s_hosts, s_dom[2], s_base_lookups;
static void sock_cb(void *d, ares_socket_t s, int r, int w) { }
static void base_channel(ares_channel_t *c, unsigned timeout, size_t tries, size_t ndots, size_t maxtimeout, unsigned flags, unsigned short up, unsigned short tp, int snd, int rcv, size_t edns, size_t umq, ares_bool_t rot)
{
  memset(c, 0, sizeof(*c)); c->timeout = timeout; c->tries = tries; c->ndots = ndots; c->maxtimeout = maxtimeout; c->flags = flags; c->udp_port = up; c->tcp_port = tp;
  c->socket_send_buffer_size = snd; c->socket_receive_buffer_size = rcv; c->ednspsz = edns; c->udp_max_queries = umq; c->rotate = rot; c->lookups = &s_base_lookups;
}
void h_options_roundtrip(void)
{
  /* the state a channel has apart from the options (defaults / system configuration), identical for the original and the copy */
  unsigned bt = nondet_u32(); size_t btr = nondet_size(), bnd = nondet_size(), bmt = nondet_size(), bed = nondet_size(), bumq = nondet_size(); unsigned bfl = nondet_u32(); unsigned short bup = nondet_u16(), btp = nondet_u16(); int bsnd = nondet_int(), brcv = nondet_int(); ares_bool_t brot = nondet_bool() ? ARES_TRUE : ARES_FALSE;
  __CPROVER_assume(bt > 0 && btr > 0);
  static ares_channel_t A, B; base_channel(&A, bt, btr, bnd, bmt, bfl, bup, btp, bsnd, brcv, bed, bumq, brot); base_channel(&B, bt, btr, bnd, bmt, bfl, bup, btp, bsnd, brcv, bed, bumq, brot);
  struct ares_options O1; memset(&O1, 0, sizeof(O1)); int m1 = nondet_int();
  __CPROVER_assume((m1 & ARES_OPT_SERVERS) == 0);
  O1.flags = nondet_int(); O1.timeout = nondet_int(); O1.tries = nondet_int(); O1.ndots = nondet_int(); O1.maxtimeout = nondet_int(); O1.udp_port = nondet_u16(); O1.tcp_port = nondet_u16();
  O1.socket_send_buffer_size = nondet_int(); O1.socket_receive_buffer_size = nondet_int(); O1.ednspsz = nondet_int(); O1.udp_max_queries = nondet_int(); O1.qcache_max_ttl = nondet_u32(); O1.evsys = (ares_evsys_t)(nondet_u8() % 6);
  O1.server_failover_opts.retry_chance = nondet_u16(); O1.server_failover_opts.retry_delay = nondet_size();
  O1.sock_state_cb = nondet_bool() ? sock_cb : NULL; O1.sock_state_cb_data = nondet_bool() ? &s_hosts : NULL;
  O1.lookups = nondet_bool() ? &s_lookups : NULL; O1.resolvconf_path = nondet_bool() ? &s_resolv : NULL; O1.hosts_path = nondet_bool() ? &s_hosts : NULL;
#ifdef ARRAYS
  char *doms[2] = { &s_dom[0], &s_dom[1] }; struct apattern sl[2]; for (int i = 0; i < 2; i++) { sl[i].addr.family = nondet_bool() ? AF_INET : AF_INET6; for (int j = 0; j < 16; j++) sl[i].addr.addr.addr6._S6_un._S6_u8[j] = nondet_u8(); sl[i].mask = nondet_u8(); }
  O1.domains = doms; O1.ndomains = (int)(nondet_u8() % 4) - 1; O1.sortlist = sl; O1.nsort = (int)(nondet_u8() % 4) - 1;
#else
  __CPROVER_assume((m1 & (ARES_OPT_DOMAINS | ARES_OPT_SORTLIST)) == 0);
#endif
  g_oom = nondet_bool();
  if (ares_init_by_options(&A, &O1, m1) != ARES_SUCCESS) return;     /* not accepted by initialisation */
  { /* which options count as explicitly supplied: everything in the mask, except values that mean "use the default" */
    unsigned e = (unsigned)m1;
    if (e & ARES_OPT_TIMEOUTMS) { e &= ~(unsigned)ARES_OPT_TIMEOUT; if (O1.timeout <= 0) e &= ~(unsigned)ARES_OPT_TIMEOUTMS; }
    else if (e & ARES_OPT_TIMEOUT) { e &= ~(unsigned)ARES_OPT_TIMEOUT; if (O1.timeout > 0) e |= ARES_OPT_TIMEOUTMS; }
    if (O1.tries <= 0) e &= ~(unsigned)ARES_OPT_TRIES; if (O1.ndots < 0) e &= ~(unsigned)ARES_OPT_NDOTS; if (O1.maxtimeout <= 0) e &= ~(unsigned)ARES_OPT_MAXTIMEOUTMS;
    if (O1.socket_send_buffer_size <= 0) e &= ~(unsigned)ARES_OPT_SOCK_SNDBUF; if (O1.socket_receive_buffer_size <= 0) e &= ~(unsigned)ARES_OPT_SOCK_RCVBUF; if (O1.ednspsz <= 0) e &= ~(unsigned)ARES_OPT_EDNSPSZ;
    if (O1.lookups == NULL) e &= ~(unsigned)ARES_OPT_LOOKUPS; if (O1.resolvconf_path == NULL) e &= ~(unsigned)ARES_OPT_RESOLVCONF; if (O1.hosts_path == NULL) e &= ~(unsigned)ARES_OPT_HOSTS_FILE; if (O1.udp_max_queries <= 0) e &= ~(unsigned)ARES_OPT_UDP_MAX_QUERIES;
    e |= ARES_OPT_QUERY_CACHE;
    __CPROVER_assert(A.optmask == e, "C16: every option the application supplied is recorded as explicit (the record is what keeps system configuration from overriding it) -- also an explicitly EMPTY domain list or sortlist; only 'use the default' values are dropped");
  }
  struct ares_options O2; int m2 = nondet_int();
  /* the caller's struct is NOT zeroed by save_options: fields whose bit is clear stay arbitrary and must not matter */
  O2.flags = nondet_int(); O2.timeout = nondet_int(); O2.tries = nondet_int(); O2.ndots = nondet_int(); O2.maxtimeout = nondet_int(); O2.udp_port = nondet_u16(); O2.tcp_port = nondet_u16();
  O2.socket_send_buffer_size = nondet_int(); O2.socket_receive_buffer_size = nondet_int(); O2.ednspsz = nondet_int(); O2.udp_max_queries = nondet_int(); O2.qcache_max_ttl = nondet_u32(); O2.evsys = (ares_evsys_t)(nondet_u8() % 6);
  O2.server_failover_opts.retry_chance = nondet_u16(); O2.server_failover_opts.retry_delay = nondet_size(); O2.sock_state_cb = NULL; O2.sock_state_cb_data = NULL; O2.ndomains = nondet_int(); O2.nsort = nondet_int(); O2.nservers = nondet_int();
  int rs = ares_save_options(&A, &O2, &m2);
  if (rs != ARES_SUCCESS) { __CPROVER_assert(rs == ARES_ENOMEM && g_oom, "C16/C14: saving a configured channel fails only on out of memory"); return; }
  __CPROVER_assert((unsigned)m2 == A.optmask, "C16: the saved mask is the set of options in effect");
  ares_status_t rb = ares_init_by_options(&B, &O2, m2);
  if (rb != ARES_SUCCESS) { __CPROVER_assert(rb == ARES_ENOMEM && g_oom || rb == ARES_ENOTIMP, "C16: saved options are accepted by initialisation (except out of memory / no thread support)"); return; }
  __CPROVER_assert(B.optmask == A.optmask, "C16: the copy has the same options in effect");
  __CPROVER_assert(B.flags == A.flags && B.tries == A.tries && B.ndots == A.ndots && B.udp_port == A.udp_port && B.tcp_port == A.tcp_port && B.rotate == A.rotate, "C16: same flags, tries, ndots, ports, rotation");
  __CPROVER_assert(B.timeout == A.timeout, "C16: same timeout");
  __CPROVER_assert(B.maxtimeout == A.maxtimeout, "C16: same maximum timeout");
  __CPROVER_assert(B.socket_send_buffer_size == A.socket_send_buffer_size && B.socket_receive_buffer_size == A.socket_receive_buffer_size, "C16: same socket buffer sizes");
  __CPROVER_assert(B.ednspsz == A.ednspsz && B.udp_max_queries == A.udp_max_queries && B.qcache_max_ttl == A.qcache_max_ttl && B.evsys == A.evsys, "C16: same EDNS size, UDP query limit, cache TTL cap, event system");
  __CPROVER_assert(B.server_retry_chance == A.server_retry_chance && B.server_retry_delay == A.server_retry_delay, "C16: same failover settings");
  __CPROVER_assert(B.sock_state_cb == A.sock_state_cb && B.sock_state_cb_data == A.sock_state_cb_data, "C16: same socket-state callback");
  __CPROVER_assert(B.lookups == A.lookups && B.resolvconf_path == A.resolvconf_path && B.hosts_path == A.hosts_path, "C16: same lookup order and file paths");
#ifdef ARRAYS
  __CPROVER_assert(B.ndomains == A.ndomains && B.nsort == A.nsort, "C16: same number of search domains and sortlist entries");
  for (size_t i = 0; i < 2; i++) if (i < A.ndomains) __CPROVER_assert(B.domains[i] == A.domains[i], "C16: same search domains, in order");
  for (size_t i = 0; i < 2; i++) if (i < A.nsort) { __CPROVER_assert(B.sortlist[i].addr.family == A.sortlist[i].addr.family && B.sortlist[i].mask == A.sortlist[i].mask, "C16: same sortlist families and prefix lengths, in order");
    for (int j = 0; j < 16; j++) __CPROVER_assert(B.sortlist[i].addr.addr.addr6._S6_un._S6_u8[j] == A.sortlist[i].addr.addr.addr6._S6_un._S6_u8[j], "C16: same sortlist addresses"); }
#endif
}
