/* ASSUMED: stand-ins for the per-line helpers of ares_parse_hosts(): the address parser yields a fresh entry or fails (leaving no entry), the host-name parser succeeds or fails, ares_hosts_file_add() always takes the entry (also on error); entry objects carry a ghost life-cycle state */
#include "ares_private.h"
#include "hosts_ghost.h"
typedef struct ares_hosts_entry ares_hosts_entry_t; typedef struct ares_hosts_file ares_hosts_file_t;
#define IDX(e) ((int)((char *)(e) - g_ent))
ares_status_t ares_parse_hosts_ipaddr(ares_buf_t *buf, ares_hosts_entry_t **entry_out)
{ int k = g_ip_calls < 4 ? g_ip_calls : 3; g_ip_calls++; *entry_out = NULL; if (g_ip_status[k] != ARES_SUCCESS) return g_ip_status[k]; if (g_nent >= 4) return ARES_ENOMEM; g_state[g_nent] = E_LIVE; *entry_out = (ares_hosts_entry_t *)&g_ent[g_nent++]; return ARES_SUCCESS; }
ares_status_t ares_parse_hosts_hostnames(ares_buf_t *buf, ares_hosts_entry_t *entry)
{ int k = g_hn_calls < 4 ? g_hn_calls : 3; g_hn_calls++; __CPROVER_assert(entry != NULL && g_state[IDX(entry)] == E_LIVE, "C15: host names are added to a live entry"); return g_hn_status[k]; }
void ares_hosts_entry_destroy(ares_hosts_entry_t *entry)
{ if (entry == NULL) return; __CPROVER_assert(g_state[IDX(entry)] == E_LIVE, "C15/C14: an entry is released exactly once and never after the table took it (no double free / use after free)"); g_state[IDX(entry)] = E_DESTROYED; }
ares_status_t ares_hosts_file_add(ares_hosts_file_t *hosts, ares_hosts_entry_t *entry)
{ int k = g_add_calls < 4 ? g_add_calls : 3; g_add_calls++; __CPROVER_assert(g_state[IDX(entry)] == E_LIVE, "C15: only a live entry is added"); g_state[IDX(entry)] = g_add_status[k] == ARES_SUCCESS ? E_OWNED : E_DESTROYED; return g_add_status[k]; }
ares_hosts_file_t *ares_hosts_file_create(const char *filename) { extern _Bool nondet_bool(void); if (nondet_bool()) return NULL; g_hf_created++; return (ares_hosts_file_t *)&hf_tok; }
void ares_hosts_file_destroy(ares_hosts_file_t *hf) { if (hf != NULL) g_hf_destroyed++; }
