/* ASSUMED: process_option() stand-in returning any status (its own behaviour is proved in config.process_option) */
#include "ares_private.h"
#include "config_ghost.h"
ares_status_t process_option(ares_sysconfig_t *sysconfig, ares_buf_t *option) { ares_status_t s = g_po_status[g_po_calls < 3 ? g_po_calls : 2]; g_po_calls++; return s; }
