/* C16: server identity when a list is re-applied: the real ares_server_find / ares_server_in_newconfig /
 * ares_server_isdup of src/lib/ares_update_servers.c agree that a server IS its (address, UDP port, TCP port). */
#include "nd.h"
#include <stdlib.h>
#include <string.h>
#include "src/lib/ares_update_servers.c"
#define SMAX 2
static ares_server_t g_srv[SMAX]; static size_t g_ns; static ares_sconfig_t g_sc[2]; static size_t g_nsc;
ares_slist_node_t *ares_slist_node_first(const ares_slist_t *l) { return g_ns ? (ares_slist_node_t *)&g_srv[0] : NULL; }
ares_slist_node_t *ares_slist_node_next(const ares_slist_node_t *n) { size_t i = (size_t)((const ares_server_t *)n - g_srv); return i + 1 < g_ns ? (ares_slist_node_t *)&g_srv[i + 1] : NULL; }
void *ares_slist_node_val(ares_slist_node_t *n) { return n; }
ares_llist_node_t *ares_llist_node_first(ares_llist_t *l) { return g_nsc ? (ares_llist_node_t *)&g_sc[0] : NULL; }
ares_llist_node_t *ares_llist_node_next(ares_llist_node_t *n) { size_t i = (size_t)((ares_sconfig_t *)n - g_sc); return i + 1 < g_nsc ? (ares_llist_node_t *)&g_sc[i + 1] : NULL; }
ares_llist_node_t *ares_llist_node_prev(ares_llist_node_t *n) { size_t i = (size_t)((ares_sconfig_t *)n - g_sc); return i > 0 ? (ares_llist_node_t *)&g_sc[i - 1] : NULL; }
void *ares_llist_node_val(ares_llist_node_t *n) { return n; }
static void mk_addr(struct ares_addr *a) { a->family = nondet_bool() ? AF_INET : AF_INET6; for (int i = 0; i < 16; i++) ((unsigned char *)&a->addr)[i] = nondet_uchar() & 1; }
static _Bool same_addr(const struct ares_addr *a, const struct ares_addr *b) { if (a->family != b->family) return 0; return memcmp(&a->addr, &b->addr, a->family == AF_INET ? 4 : 16) == 0; }
static unsigned short eff(const ares_channel_t *ch, unsigned short p, unsigned short chp) { return p ? p : (chp ? chp : 53); }
void h_server_identity(void)
{
  static ares_channel_t ch; ch.udp_port = nondet_u16(); ch.tcp_port = nondet_u16(); g_ns = nondet_size() % 3; g_nsc = 1 + nondet_size() % 2;
  for (int i = 0; i < SMAX; i++) { mk_addr(&g_srv[i].addr); g_srv[i].udp_port = nondet_u16(); g_srv[i].tcp_port = nondet_u16(); g_srv[i].channel = &ch; }
  for (int i = 0; i < 2; i++) { mk_addr(&g_sc[i].addr); g_sc[i].udp_port = nondet_u16(); g_sc[i].tcp_port = nondet_u16(); }
  const ares_sconfig_t *s = &g_sc[0]; unsigned short su = eff(&ch, s->udp_port, ch.udp_port), st = eff(&ch, s->tcp_port, ch.tcp_port);
  ares_slist_node_t *f = ares_server_find(&ch, s);
  _Bool exists = 0; for (size_t i = 0; i < SMAX; i++) if (i < g_ns && same_addr(&g_srv[i].addr, &s->addr) && g_srv[i].udp_port == su && g_srv[i].tcp_port == st) exists = 1;
  __CPROVER_assert((f != NULL) == exists, "C16: an entry of a re-applied list matches an existing server exactly when address, UDP port AND TCP port agree");
  if (f != NULL) { const ares_server_t *v = (const ares_server_t *)f; __CPROVER_assert(same_addr(&v->addr, &s->addr) && v->udp_port == su && v->tcp_port == st, "C16: the matched server has the same address and per-protocol ports"); }
  /* the three matchers agree: what find() accepts, the stale-removal keeps */
  if (f != NULL) __CPROVER_assert(ares_server_in_newconfig((const ares_server_t *)f, (ares_llist_t *)&g_sc) == ARES_TRUE, "C16: a server matched by the new list is not removed as stale (no server vanishes when a list is re-applied)");
  if (g_nsc == 2) { ares_bool_t dup = ares_server_isdup(&ch, (ares_llist_node_t *)&g_sc[1]);
    __CPROVER_assert((dup == ARES_TRUE) == (same_addr(&g_sc[0].addr, &g_sc[1].addr) && eff(&ch, g_sc[1].udp_port, ch.udp_port) == su && eff(&ch, g_sc[1].tcp_port, ch.tcp_port) == st), "C16: two list entries are duplicates exactly when address and both ports agree"); }
}
