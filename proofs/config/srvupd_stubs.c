/* stand-ins for the static helpers of ares_servers_update() (each has its own obligation: config.server_identity covers
 * ares_server_find / ares_server_isdup): whether an entry is a duplicate / an existing server is a ghost of the harness */
#include "ares_private.h"
#include "nd.h"
#define SMAX 3
extern _Bool su_dup[SMAX], su_known[SMAX], su_oom; extern char su_cfg_node[SMAX], su_snode[SMAX]; extern int su_created, su_create_idx[SMAX], su_stale_calls, su_trim_calls;
static size_t cfg_index(const void *n) { return (size_t)((const char *)n - su_cfg_node); }
ares_bool_t ares_server_isdup(const ares_channel_t *channel, ares_llist_node_t *s) { return su_dup[cfg_index(s)] ? ARES_TRUE : ARES_FALSE; }
extern size_t su_cur;
ares_slist_node_t *ares_server_find(const ares_channel_t *channel, const void *s) { return su_known[su_cur] ? (ares_slist_node_t *)&su_snode[su_cur] : NULL; }
ares_status_t ares_server_create(ares_channel_t *channel, const void *sconfig, size_t idx) { if (su_oom && nondet_bool()) return ARES_ENOMEM; su_create_idx[su_cur] = (int)idx; su_created++; return ARES_SUCCESS; }
ares_bool_t ares_servers_remove_stale(ares_channel_t *channel, ares_llist_t *srvlist) { su_stale_calls++; return nondet_bool() ? ARES_TRUE : ARES_FALSE; }
void ares_servers_trim_single(ares_channel_t *channel) { su_trim_calls++; }
