/* C15/C16: one sortlist entry -- parse_sort() of the real src/lib/ares_sysconfig_files.c: an entry is accepted only when it is an
 * IPv4 or IPv6 address with a prefix length that fits the family (<= 32 / <= 128), a dotted IPv4 netmask, or no mask (natural
 * mask); anything else is refused, so that a malformed entry cannot put an out-of-range pattern on the channel.
 * ASSUMED: the buffer tokenisers (proved in proofs/buf) as nondeterministic stand-ins; ares_dns_pton() yields the family of the
 * text; atoi() of an all-digit string is a non-negative number. */
#include "nd.h"
#include <stdlib.h>
#include <string.h>
static int g_num; static int my_atoi(const char *s) { return g_num; }
#define atoi my_atoi
#include "src/lib/ares_sysconfig_files.c"
#undef atoi
static int g_fam, g_maskfam; static _Bool g_has_mask, g_isnum, g_trailing; static int g_len_calls;
size_t ares_buf_consume_whitespace(ares_buf_t *b, ares_bool_t lf) { return 0; }
size_t ares_buf_len(const ares_buf_t *b) { g_len_calls++; return g_len_calls == 1 ? 1 + (nondet_size() % 4) : (g_trailing ? 1 : 0); }
void ares_buf_tag(ares_buf_t *b) { }
size_t ares_buf_consume_charset(ares_buf_t *b, const unsigned char *cs, size_t n) { return nondet_bool() ? 0 : 1 + (nondet_size() % 8); }
ares_status_t ares_buf_tag_fetch_string(ares_buf_t *b, char *out, size_t len) { if (nondet_bool()) return ARES_EBADSTR; out[0] = 0; return ARES_SUCCESS; }
ares_bool_t ares_buf_begins_with(const ares_buf_t *b, const unsigned char *d, size_t l) { return g_has_mask ? ARES_TRUE : ARES_FALSE; }
ares_status_t ares_buf_consume(ares_buf_t *b, size_t n) { return ARES_SUCCESS; }
ares_bool_t ares_str_isnum(const char *s) { return g_isnum ? ARES_TRUE : ARES_FALSE; }
static int g_pton_calls;
const void *ares_dns_pton(const char *ip, struct ares_addr *addr, size_t *out_len)
{
  int want = g_pton_calls++ == 0 ? g_fam : g_maskfam;
  if (want != AF_INET && want != AF_INET6) return NULL; if (addr->family != AF_UNSPEC && addr->family != want) return NULL;
  addr->family = want; for (int i = 0; i < 16; i++) addr->addr.addr6._S6_un._S6_u8[i] = nondet_uchar(); *out_len = want == AF_INET ? 4 : 16; return &addr->addr;
}
unsigned char ares_count_bits_u8(unsigned char x) { unsigned char c = 0; for (int i = 0; i < 8; i++) if (x & (1u << i)) c++; return c; }
void h_parse_sort(void)
{
  static char b; struct apattern pat; g_fam = nondet_bool() ? AF_INET : (nondet_bool() ? AF_INET6 : -1); g_maskfam = nondet_bool() ? AF_INET : (nondet_bool() ? AF_INET6 : -1); g_has_mask = nondet_bool(); g_isnum = nondet_bool(); g_trailing = nondet_bool();
  g_num = nondet_int(); __CPROVER_assume(g_num >= 0); g_len_calls = g_pton_calls = 0;
  ares_status_t rv = parse_sort((ares_buf_t *)&b, &pat);
  if (rv != ARES_SUCCESS) return;
  __CPROVER_assert(!g_trailing, "C15: trailing garbage makes the entry malformed");
  __CPROVER_assert(pat.addr.family == g_fam && (g_fam == AF_INET || g_fam == AF_INET6), "C15: an accepted sortlist entry is an IPv4 or IPv6 address");
  __CPROVER_assert(pat.mask <= (pat.addr.family == AF_INET ? 32 : 128), "C15/C16: the prefix length of an accepted sortlist entry fits its address family (a malformed entry is refused, not stored)");
  if (g_has_mask && g_isnum) __CPROVER_assert(pat.mask == g_num, "C15: a numeric prefix length is taken as written");
}
