#ifndef CONFIG_GHOST_H
#define CONFIG_GHOST_H
#ifdef GHOST_DEFINE
#define G
#else
#define G extern
#endif
G ares_status_t g_po_status[3], g_ret[6]; G int g_po_calls, g_calls[6], g_value_mode;
#endif
