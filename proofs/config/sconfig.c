/* C15/C14: ares_sconfig_append() of the real src/lib/ares_update_servers.c (loop free, complete): appending one server entry either
 * stores it, silently skips it (blacklisted address; link-local address without a usable interface) or fails for lack of memory --
 * it never reports anything else, because its status is passed on unchanged by the resolv.conf line parser, whose callers take any
 * other status for "stop reading" / "file missing" (one odd name-server line must not discard the rest of the configuration). */
#include "nd.h"
#include <stdlib.h>
#include <string.h>
#include "src/lib/ares_update_servers.c"
static _Bool g_oom; static int g_inserted, g_freed, g_created; static char list_tok, node_tok; static void *g_s;
void *ares_malloc_zero(size_t n) { if (g_oom && nondet_bool()) return NULL; void *p = calloc(1, n); __CPROVER_assume(p != NULL); g_s = p; return p; }
void ares_free(void *p) { if (p != NULL && p == g_s) g_freed++; }
ares_llist_t *ares_llist_create(ares_llist_destructor_t d) { if (g_oom && nondet_bool()) return NULL; g_created++; return (ares_llist_t *)&list_tok; }
ares_llist_node_t *ares_llist_insert_last(ares_llist_t *l, void *v) { if (g_oom && nondet_bool()) return NULL; g_inserted++; return (ares_llist_node_t *)&node_tok; }
size_t ares_strlen(const char *s) { return s == NULL ? 0 : nondet_size() % 4; }
unsigned int ares_if_nametoindex(const ares_channel_t *channel, const char *name) { return nondet_uint(); }
ares_bool_t ares_str_isnum(const char *s) { return nondet_bool() ? ARES_TRUE : ARES_FALSE; }
size_t ares_strcpy(char *d, const char *s, size_t n) { if (n) d[0] = 0; return 0; }
void h_sconfig_append(void)
{
  static ares_channel_t ch; ares_llist_t *list = nondet_bool() ? (ares_llist_t *)&list_tok : NULL; struct ares_addr a; a.family = nondet_bool() ? AF_INET : AF_INET6; for (int i = 0; i < 16; i++) a.addr.addr6._S6_un._S6_u8[i] = nondet_uchar();
  static char ifn[] = "if0"; const char *iface = nondet_bool() ? ifn : NULL; g_oom = nondet_bool(); g_inserted = g_freed = g_created = 0; g_s = NULL;
  ares_status_t rv = ares_sconfig_append(&ch, &list, &a, nondet_u16(), nondet_u16(), iface);
  __CPROVER_assert(rv == ARES_SUCCESS || (rv == ARES_ENOMEM && g_oom), "C15: appending a server entry reports only success (stored or silently skipped) or out of memory -- an odd name-server entry never becomes an error that would discard the rest of the configuration");
  __CPROVER_assert(g_s == NULL || g_inserted + g_freed == 1, "C14: the entry object is either stored or released, exactly once");
  if (rv != ARES_SUCCESS) __CPROVER_assert(g_inserted == 0, "C14: nothing is stored on failure");
}
