/* C15/C16: configuration handling in the real src/lib/ares_sysconfig.c (apply) and src/lib/ares_sysconfig_files.c
 * (options string, one resolv.conf line). */
#include "nd.h"
#include <stdlib.h>
#include <string.h>
#if defined(T_APPLY)
#include "src/lib/ares_sysconfig.c"
#else
#include "src/lib/ares_sysconfig_files.c"
#endif
#include "config_ghost.h"

#if defined(T_APPLY)
/* ---------------- user settings win over system configuration ------------------------------------------------- */
static int g_srv_updates; static char tok_dom, tok_look, tok_sort; static _Bool g_oomc;
ares_status_t ares_servers_update(ares_channel_t *channel, ares_llist_t *server_list, ares_bool_t user_specified) { g_srv_updates++; __CPROVER_assert(user_specified == ARES_FALSE, "C16: system servers are not recorded as an explicit user setting"); return (g_oomc && nondet_bool()) ? ARES_ENOMEM : ARES_SUCCESS; }
char **ares_strsplit_duplicate(char **elms, size_t n) { return (g_oomc && nondet_bool()) ? NULL : (char **)&tok_dom; }
void ares_strsplit_free(char **e, size_t n) {}
char *ares_strdup(const char *s) { return (g_oomc && nondet_bool()) ? NULL : &tok_look; }
void *ares_malloc(size_t n) { return (g_oomc && nondet_bool()) ? NULL : malloc(n ? n : 1); }
void ares_free(void *p) {}
void h_sysconfig_apply(void)
{
  static ares_channel_t ch; static ares_sysconfig_t sc; static char d_old, l_old; static struct apattern pat[2];
  ch.optmask = (int)nondet_uint(); ch.flags = nondet_uint(); ch.ndots = nondet_size(); ch.tries = nondet_size(); ch.timeout = nondet_size(); ch.rotate = nondet_bool() ? ARES_TRUE : ARES_FALSE;
  ch.domains = (char **)&d_old; ch.ndomains = 1; ch.lookups = &l_old; ch.sortlist = NULL; ch.nsort = 0; g_oomc = nondet_bool(); g_srv_updates = 0;
  sc.sconfig = nondet_bool() ? (ares_llist_t *)&tok_sort : NULL; sc.domains = nondet_bool() ? (char **)&tok_dom : NULL; sc.ndomains = 1; sc.lookups = nondet_bool() ? &tok_look : NULL;
  sc.sortlist = nondet_bool() ? pat : NULL; sc.nsortlist = 1 + nondet_size() % 2; sc.ndots = nondet_size(); sc.tries = nondet_size(); sc.timeout_ms = nondet_size(); sc.rotate = nondet_bool() ? ARES_TRUE : ARES_FALSE; sc.usevc = nondet_bool() ? ARES_TRUE : ARES_FALSE;
  ares_channel_t o = ch;
  ares_status_t rv = ares_sysconfig_apply(&ch, &sc);
  /* statement C16: settings the application supplied explicitly are never overridden by system configuration or environment */
  if (o.optmask & ARES_OPT_SERVERS) __CPROVER_assert(g_srv_updates == 0, "C16: an explicit server list is not replaced by system configuration");
  if (o.optmask & ARES_OPT_DOMAINS) __CPROVER_assert(ch.domains == o.domains && ch.ndomains == o.ndomains, "C16: explicit search domains are kept");
  if (o.optmask & ARES_OPT_LOOKUPS) __CPROVER_assert(ch.lookups == o.lookups, "C16: an explicit lookup order is kept");
  if (o.optmask & ARES_OPT_SORTLIST) __CPROVER_assert(ch.sortlist == o.sortlist && ch.nsort == o.nsort, "C16: an explicit sortlist is kept");
  if (o.optmask & ARES_OPT_NDOTS) __CPROVER_assert(ch.ndots == o.ndots, "C16: explicit ndots is kept");
  if (o.optmask & ARES_OPT_TRIES) __CPROVER_assert(ch.tries == o.tries, "C16: explicit tries is kept");
  if (o.optmask & ARES_OPT_TIMEOUTMS) __CPROVER_assert(ch.timeout == o.timeout, "C16: an explicit timeout is kept (the channel records it as ARES_OPT_TIMEOUTMS)");
  if (o.optmask & (ARES_OPT_ROTATE | ARES_OPT_NOROTATE)) __CPROVER_assert(ch.rotate == o.rotate, "C16: explicit rotate / norotate is kept");
  if (o.optmask & ARES_OPT_FLAGS) __CPROVER_assert(ch.flags == o.flags, "C16: explicit flags are kept (use-vc from resolv.conf / RES_OPTIONS does not force TCP on)");
  __CPROVER_assert((ch.flags & ~(unsigned)ARES_FLAG_USEVC) == (o.flags & ~(unsigned)ARES_FLAG_USEVC), "C16: no other flag is touched");
  /* and, when the application left them open, the system values take effect (C15: valid directives take effect) */
  if (rv == ARES_SUCCESS) {
    if (!(o.optmask & ARES_OPT_NDOTS)) __CPROVER_assert(ch.ndots == sc.ndots, "C15: system ndots takes effect");
    if (!(o.optmask & ARES_OPT_TRIES) && sc.tries) __CPROVER_assert(ch.tries == sc.tries, "C15: system attempts take effect");
    if (!(o.optmask & ARES_OPT_TIMEOUTMS) && sc.timeout_ms) __CPROVER_assert(ch.timeout == sc.timeout_ms, "C15: system timeout takes effect");
    if (!(o.optmask & ARES_OPT_SERVERS) && sc.sconfig) __CPROVER_assert(g_srv_updates == 1, "C15: system name servers take effect");
  } else __CPROVER_assert(rv == ARES_ENOMEM, "C14: apply fails only for lack of memory");
}

#elif defined(T_SETOPT)
/* ---------------- an options string: every option processed, junk ignored, only ENOMEM is fatal ------------- */
static char tokb, toka; static size_t g_nopt; static ares_buf_t *g_optv[3]; static _Bool g_mk_fail, g_split_fail; static char o0, o1, o2;
ares_buf_t *ares_buf_create_const(const unsigned char *d, size_t l) { return g_mk_fail ? NULL : (ares_buf_t *)&tokb; }
size_t ares_strlen(const char *s) { return 3; }
ares_status_t ares_buf_split(ares_buf_t *buf, const unsigned char *delims, size_t dl, ares_buf_split_t flags, size_t max, ares_array_t **arr) { if (g_split_fail) return ARES_ENOMEM; *arr = (ares_array_t *)&toka; return ARES_SUCCESS; }
size_t ares_array_len(const ares_array_t *a) { return a ? g_nopt : 0; }
void *ares_array_at(ares_array_t *a, size_t i) { return &g_optv[i]; }
void ares_array_destroy(ares_array_t *a) {}
void ares_buf_destroy(ares_buf_t *b) {}
void h_set_options(void)
{
  static ares_sysconfig_t sc; g_nopt = nondet_size() % 4; g_mk_fail = nondet_bool(); g_split_fail = nondet_bool(); g_optv[0] = (ares_buf_t *)&o0; g_optv[1] = (ares_buf_t *)&o1; g_optv[2] = (ares_buf_t *)&o2;
  for (int i = 0; i < 3; i++) g_po_status[i] = (ares_status_t)(nondet_uint() % 26); g_po_calls = 0;
  ares_status_t rv = ares_sysconfig_set_options(&sc, "abc");
  __CPROVER_assert(rv == ARES_SUCCESS || rv == ARES_ENOMEM, "C15: a malformed option never fails the options line (only out of memory is fatal), wherever it stands");
  if (rv == ARES_SUCCESS && !g_mk_fail && !g_split_fail) __CPROVER_assert((size_t)g_po_calls == g_nopt, "C15: every option of the line is processed, junk in between does not stop the others");
  if (!g_mk_fail && !g_split_fail) { _Bool oom = 0; for (size_t i = 0; i < 3; i++) if (i < g_nopt && i < (size_t)g_po_calls && g_po_status[i] == ARES_ENOMEM) oom = 1; __CPROVER_assert((rv == ARES_ENOMEM) == oom, "C15/C14: the line fails exactly when an option ran out of memory"); }
}

#elif defined(T_OPTION)
/* ---------------- one option ------------------------------------------------------------------------------------------ */
static char g_key[10], g_val[6]; static char *g_kv[2]; static size_t g_kvn; static int g_freed; static _Bool g_split_oom; static unsigned long g_valint;
ares_status_t ares_buf_split_str(ares_buf_t *buf, const unsigned char *delims, size_t dl, ares_buf_split_t flags, size_t max, char ***strs, size_t *n) { if (g_split_oom) return ARES_ENOMEM; *strs = g_kv; *n = g_kvn; return ARES_SUCCESS; }
void ares_free_array(void *arr, size_t n, void (*f)(void *)) { if (arr != NULL) g_freed++; }
unsigned long strtoul(const char *s, char **e, int b) { return g_valint; }
ares_bool_t ares_streq(const char *a, const char *b) { return strcmp(a, b) == 0 ? ARES_TRUE : ARES_FALSE; }
void h_process_option(void)
{
  static ares_sysconfig_t sc; static char bt; sc.ndots = nondet_size(); sc.tries = nondet_size(); sc.timeout_ms = nondet_size(); sc.rotate = nondet_bool() ? ARES_TRUE : ARES_FALSE; sc.usevc = nondet_bool() ? ARES_TRUE : ARES_FALSE;
  unsigned which = nondet_uint() % 9; const char *ks[9] = { "ndots", "retrans", "timeout", "retry", "attempts", "rotate", "use-vc", "usevc", "debug" }; strcpy(g_key, ks[which]);
  g_kv[0] = g_key; g_kv[1] = g_val; g_kvn = nondet_size() % 3; g_split_oom = nondet_bool(); g_valint = nondet_uint(); g_freed = 0;
  ares_sysconfig_t o = sc;
  ares_status_t rv = process_option(&sc, (ares_buf_t *)&bt);
  __CPROVER_assert(g_split_oom || g_freed == 1, "C15/C14: the split key/value is released exactly once on every path (also for rejected values)");
  if (g_split_oom || g_kvn < 1) { __CPROVER_assert(rv != ARES_SUCCESS && sc.ndots == o.ndots && sc.tries == o.tries && sc.timeout_ms == o.timeout_ms, "C15: nothing changes on failure"); return; }
  unsigned v = g_kvn == 2 ? (unsigned)g_valint : 0;
  __CPROVER_assert(sc.ndots == (which == 0 ? v : o.ndots), "C15: ndots:n sets ndots, nothing else does");
  __CPROVER_assert(sc.timeout_ms == ((which == 1 || which == 2) && v != 0 ? v * 1000u : o.timeout_ms), "C15: timeout:n / retrans:n set the timeout in seconds; zero is rejected and changes nothing");
  __CPROVER_assert(sc.tries == ((which == 3 || which == 4) && v != 0 ? v : o.tries), "C15: attempts:n / retry:n set the tries; zero is rejected and changes nothing");
  __CPROVER_assert(sc.rotate == (which == 5 ? ARES_TRUE : o.rotate) && sc.usevc == ((which == 6 || which == 7) ? ARES_TRUE : o.usevc), "C15: rotate / use-vc");
  if (which == 8) __CPROVER_assert(rv == ARES_SUCCESS, "C15: an unrecognised option is ignored, it is not an error");
}

#else
/* ---------------- one resolv.conf line: only SUCCESS/ENOMEM, unrecognised keyword touches nothing -------- */
static const char *g_option; static _Bool g_comment, g_empty, g_tagfail;
ares_bool_t ares_buf_begins_with(const ares_buf_t *b, const unsigned char *d, size_t l) { return g_comment ? ARES_TRUE : ARES_FALSE; }
void ares_buf_tag(ares_buf_t *b) {}
ares_status_t ares_buf_tag_rollback(ares_buf_t *b) { return ARES_SUCCESS; }
size_t ares_buf_consume_nonwhitespace(ares_buf_t *b) { return g_empty ? 0 : 3; }
size_t ares_buf_consume_whitespace(ares_buf_t *b, ares_bool_t lf) { return 1; }
ares_status_t ares_buf_tag_fetch_string(const ares_buf_t *b, char *str, size_t len) { if (g_tagfail) return ARES_EBADSTR; __CPROVER_assert(len >= 16, "option buffer"); strcpy(str, g_option); return ARES_SUCCESS; }
void ares_str_trim(char *s) {}
ares_bool_t ares_streq(const char *a, const char *b) { return strcmp(a, b) == 0 ? ARES_TRUE : ARES_FALSE; }
ares_status_t ares_sconfig_append_fromstr(const ares_channel_t *ch, ares_llist_t **sc, const char *str, ares_bool_t ignore_invalid) { g_calls[3]++; __CPROVER_assert(ignore_invalid == ARES_TRUE, "C15: malformed name server entries are skipped, not fatal"); return nondet_bool() ? ARES_ENOMEM : ARES_SUCCESS; }
void h_resolv_line(void)
{
  static ares_channel_t ch; static ares_sysconfig_t sc; static char lt; static char d_old; const char *ks[9] = { "domain", "lookup", "hostresorder", "search", "nameserver", "sortlist", "options", "junk", "optionsx" };
  unsigned which = nondet_uint() % 9; g_option = ks[which]; g_comment = nondet_bool(); g_empty = nondet_bool(); g_tagfail = nondet_bool(); g_value_mode = (int)(nondet_uint() % 3);
  sc.domains = nondet_bool() ? (char **)&d_old : NULL; for (int i = 0; i < 6; i++) { g_calls[i] = 0; g_ret[i] = (ares_status_t)(nondet_uint() % 26); }
  ares_status_t rv = ares_sysconfig_parse_resolv_line(&ch, &sc, (ares_buf_t *)&lt);
  __CPROVER_assert(rv == ARES_SUCCESS || rv == ARES_ENOMEM, "C15: a resolv.conf line yields SUCCESS or ENOMEM only, so junk can never abort initialisation");
  int total = g_calls[0] + g_calls[1] + g_calls[2] + g_calls[3] + g_calls[4];
  __CPROVER_assert(total <= 1, "C15: a line configures at most one thing");
  if (g_comment || g_empty || g_tagfail || g_value_mode != 0 || which >= 7) __CPROVER_assert(total == 0, "C15: comments, blank, malformed and unrecognised lines change nothing");
  else {
    __CPROVER_assert(which != 3 || g_calls[0] == 1, "C15: search takes effect");
    __CPROVER_assert(which != 0 || g_calls[0] == (sc.domains == NULL || 1 ? g_calls[0] : 0), "C15: domain");
    __CPROVER_assert((which != 1 && which != 2) || g_calls[1] == 1, "C15: lookup / hostresorder take effect");
    __CPROVER_assert(which != 4 || g_calls[3] == 1, "C15: nameserver takes effect");
    __CPROVER_assert(which != 5 || g_calls[2] == 1, "C15: sortlist takes effect");
    __CPROVER_assert(which != 6 || g_calls[4] == 1, "C15: options take effect");
  }
}
#endif
