/* C12/C01: search-list walking in the real src/lib/ares_search.c: which candidates are tried (ares_search_name_list),
 * when the walk stops (search_callback) and that the search completes and is released exactly once whatever
 * ares_send_nolock() does (it ALWAYS reports through the callback, also on failure). */
#include "nd.h"
#include <stdlib.h>
#include <string.h>
#include "src/lib/ares_search.c"
#include "search_ghost.h"

#if defined(T_WALK)
/* ---------------- the walk ------------------------------------------------------------------------------------- */
static int g_user_cb, g_freed, g_sends; static ares_status_t g_user_status; static const ares_dns_record_t *g_user_rec; static struct search_query *g_sq;
static char n0[] = "a", n1[] = "a.b.c", n2[] = "x"; static char *g_namev[3] = { n0, n1, n2 }; static char rec_tok, rsp_tok;
static int g_mode[4]; static ares_status_t g_fail[4]; static const char *g_sent_name[4];
static void user_cb(void *arg, ares_status_t status, size_t timeouts, const ares_dns_record_t *dnsrec) { g_user_cb++; g_user_status = status; g_user_rec = dnsrec; }
void ares_strsplit_free(char **elms, size_t n) {}
void ares_dns_record_destroy(ares_dns_record_t *r) {}
void ares_free(void *p) { if (p == (void *)g_sq) { __CPROVER_assert(g_freed == 0, "C01: the search state is released exactly once"); g_freed++; } free(p); }
static _Bool g_sn_fail; static int g_sn_calls;
ares_status_t ares_dns_record_query_set_name(ares_dns_record_t *r, size_t idx, const char *name) { if (g_sends < 4) g_sent_name[g_sends] = name; g_sn_calls++; return (g_sn_fail && g_sn_calls == 1) ? ARES_ENOMEM : ARES_SUCCESS; }
ares_dns_rcode_t ares_dns_record_get_rcode(const ares_dns_record_t *r) { return (ares_dns_rcode_t)nondet_uint(); }
size_t ares_dns_record_rr_cnt(const ares_dns_record_t *r, ares_dns_section_t s) { return nondet_size(); }
static ares_status_t g_reply_status; static _Bool g_reply_fixed;
ares_status_t ares_dns_query_reply_tostatus(ares_dns_rcode_t rc, size_t an) { if (g_reply_fixed) { g_reply_fixed = 0; return g_reply_status; } ares_status_t s = (ares_status_t)(nondet_uint() % 26); return s; }
/* ASSUMED: contract of ares_send_nolock(): the callback is invoked exactly once - synchronously with the returned status on every failure, synchronously on a cache hit, or later (request outstanding) */
ares_status_t ares_send_nolock(ares_channel_t *channel, ares_server_t *server, ares_send_flags_t flags, const ares_dns_record_t *dnsrec, ares_callback_dnsrec callback, void *arg, unsigned short *qid)
{
  int k = g_sends < 4 ? g_sends : 3; g_sends++;
  __CPROVER_assert(g_freed == 0 && arg == g_sq, "C01: no request is started for a search that was already released");
  if (g_mode[k] == 0) return ARES_SUCCESS;                                   /* outstanding: callback comes later */
  if (g_mode[k] == 1) { callback(arg, ARES_SUCCESS, 0, (const ares_dns_record_t *)&rsp_tok); return ARES_SUCCESS; } /* cache hit */
  callback(arg, g_fail[k], 0, NULL); return g_fail[k];                      /* failure: callback already fired */
}
void h_search_walk(void)
{
  static ares_channel_t ch; struct search_query *sq = malloc(sizeof(*sq)); __CPROVER_assume(sq != NULL); g_sq = sq;
  sq->channel = &ch; sq->callback = user_cb; sq->arg = NULL; sq->dnsrec = (ares_dns_record_t *)&rec_tok; sq->names = g_namev; sq->names_cnt = 1 + nondet_size() % 3;
  sq->next_name_idx = 1 + nondet_size() % 3; __CPROVER_assume(sq->next_name_idx <= sq->names_cnt); sq->timeouts = 0; sq->ever_got_nodata = nondet_bool() ? ARES_TRUE : ARES_FALSE;
  for (int i = 0; i < 4; i++) { g_mode[i] = (int)(nondet_uint() % 3); g_fail[i] = (ares_status_t)(1 + nondet_uint() % 25); }
  g_user_cb = g_freed = g_sends = g_sn_calls = 0; g_sn_fail = nondet_bool();
  ares_status_t st = (ares_status_t)(1 + nondet_uint() % 25); size_t idx0 = sq->next_name_idx, cnt = sq->names_cnt; ares_bool_t nodata0 = sq->ever_got_nodata;
  /* the answer for candidate idx0-1 arrives: either a bare status, or a server reply (status SUCCESS + record) whose rcode / answer
   * count translate to st */
  g_reply_status = st; g_reply_fixed = 1; _Bool with_rec = nondet_bool();
  if (with_rec) search_callback(sq, ARES_SUCCESS, 0, (const ares_dns_record_t *)&rsp_tok); else search_callback(sq, st, 0, NULL);
  _Bool soft = st == ARES_ENODATA || st == ARES_ENOTFOUND || ((st == ARES_ESERVFAIL || st == ARES_EREFUSED) && ares_name_label_cnt(g_namev[idx0 - 1]) == 1);
  __CPROVER_assert(g_user_cb <= 1 && g_freed == g_user_cb, "C01: the search completes at most once, and is released exactly when it completes");
  if (!soft) { __CPROVER_assert(g_user_cb == 1 && g_user_status == st && g_sends == 0, "C12: a candidate that yields data or a hard error stops the search with that result"); return; }
  if (idx0 < cnt) {
    __CPROVER_assert(g_sn_calls >= 1 && g_sent_name[0] == g_namev[idx0], "C12: otherwise the next candidate, in order, is tried");
    if (g_sn_fail) { __CPROVER_assert(g_sends == 0 && g_user_cb == 1 && g_user_status == ARES_ENOMEM, "C14: a failure before the request is started completes the search with that error"); return; }
    { int last = g_sends < 4 ? g_sends - 1 : 3;
      if (g_sends >= 1 && g_mode[last] == 0) { __CPROVER_assert(g_user_cb == 0 && g_freed == 0, "C12/C01: while a candidate is outstanding the search stays alive"); if (g_sends == 1) __CPROVER_assert(sq->ever_got_nodata == ((nodata0 || st == ARES_ENODATA) ? ARES_TRUE : ARES_FALSE), "C12: a candidate that exists without data is remembered (the final status is no-data if any candidate had none)"); }
      else __CPROVER_assert(g_user_cb == 1, "C01: if a request completes at once (failure or cache hit) and no candidate is left outstanding, the search has completed exactly once"); }
  } else {
    __CPROVER_assert(g_sends == 0 && g_user_cb == 1, "C12: after the last candidate the search completes");
    __CPROVER_assert(g_user_status == ((st == ARES_ENOTFOUND && (nodata0 || 0)) ? ARES_ENODATA : st), "C12: ... with no-data if any candidate existed without data, else the last candidate's status");
  }
}

#else
/* ---------------- the candidate list ------------------------------------------------------------------------------ */
static char g_name[8]; char tok_alias; static char tok_asis; char tok_cat[2]; static char d0[] = "d0", d1[] = "d1"; static char *g_doms[2] = { d0, d1 };
int g_alias_mode; char tok_alias_pub; int g_cat_calls; const char *g_cat_dom[2]; _Bool g_fail_alloc;
/* ares_lookup_hostaliases: link-time stand-in (list_stubs.c) */
void *ares_malloc_zero(size_t n) { if (g_fail_alloc && nondet_bool()) return NULL; void *p = calloc(1, n); __CPROVER_assume(p != NULL); return p; }
char *ares_strdup(const char *s) { __CPROVER_assert(s == g_name, "C12: the name as given"); return (g_fail_alloc && nondet_bool()) ? NULL : &tok_asis; }
size_t ares_strlen(const char *s) { size_t n = 0; for (int i = 0; i < 8; i++) { if (s[i] == 0) break; n++; } return n; }
void ares_free(void *p) {}
void ares_strsplit_free(char **e, size_t n) {}
void h_name_list(void)
{
  static ares_channel_t ch; size_t nl = nondet_size(); __CPROVER_assume(nl >= 1 && nl <= 6); for (size_t i = 0; i < 7; i++) g_name[i] = i < nl ? (nondet_bool() ? '.' : 'a') : 0; g_name[7] = 0;
  ch.ndomains = nondet_size() % 3; ch.domains = g_doms; ch.ndots = nondet_size() % 4; ch.flags = nondet_uint(); g_alias_mode = (int)(nondet_uint() % 3); g_cat_calls = 0; g_fail_alloc = nondet_bool();
  char **names = NULL; size_t n = 0;
  ares_status_t rv = ares_search_name_list(&ch, g_name, &names, &n);
  if (rv != ARES_SUCCESS) return;
  size_t dots = 0; for (size_t i = 0; i < nl; i++) if (g_name[i] == '.') dots++;
  if (g_alias_mode == 1) { __CPROVER_assert(n == 1 && names[0] == &tok_alias && g_cat_calls == 0, "C12: when a host alias applies only the alias itself is looked up (no search-list expansion)"); return; }
  if (g_name[nl - 1] == '.' || (ch.flags & ARES_FLAG_NOSEARCH)) { __CPROVER_assert(n == 1 && names[0] == &tok_asis && g_cat_calls == 0, "C12: a name ending in a dot, or searching disabled: only the name itself"); return; }
  __CPROVER_assert(n == ch.ndomains + 1, "C12: one candidate per search domain plus the name as given");
  size_t first_dom = dots >= ch.ndots ? 1 : 0;
  __CPROVER_assert(names[dots >= ch.ndots ? 0 : ch.ndomains] == &tok_asis, "C12: the name as given comes first when it has at least ndots dots, otherwise after the search domains");
  for (size_t i = 0; i < 2; i++) if (i < ch.ndomains) __CPROVER_assert(names[first_dom + i] == &tok_cat[i] && g_cat_dom[i] == g_doms[i], "C12: the search domains are tried in configuration order");
}
#endif
