/* the lookup walk itself (own obligations search.gai_callback / search.gai_round) is stood in for: from here on the request owns
 * its state and will complete once */
#include "ares_private.h"
extern int gs_started; extern void *gs_hq;
struct host_query;
void next_lookup(struct host_query *hquery, ares_status_t status) { gs_started++; gs_hq = hquery; }
unsigned short lookup_service(const char *service, int flags) { return 0; }
