#ifndef GNI_GHOST_H
#define GNI_GHOST_H
#ifdef GHOST_DEFINE
#define G
#else
#define G extern
#endif
G int g_ni_services; G char g_ni_service_tok;
#endif
