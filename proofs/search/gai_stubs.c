/* ASSUMED: stand-ins recording how host_callback() disposes of the lookup: end_hquery (completes it), next_lookup (next candidate / next source), terminate_retries, ai_has_ipv4 */
#include "ares_private.h"
#include "gai_ghost.h"
struct host_query;
void end_hquery(struct host_query *hq, ares_status_t status) { g_ended++; g_end_status = status; }
void next_lookup(struct host_query *hq, ares_status_t status) { g_next++; g_next_status = status; }
void terminate_retries(const struct host_query *hq, unsigned short qid) { g_term++; }
ares_bool_t ai_has_ipv4(struct ares_addrinfo *ai) { extern _Bool nondet_bool(void); return nondet_bool() ? ARES_TRUE : ARES_FALSE; }
