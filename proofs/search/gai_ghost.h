#ifndef GAI_GHOST_H
#define GAI_GHOST_H
#ifdef GHOST_DEFINE
#define G
#else
#define G extern
#endif
G int g_ended, g_next, g_term, g_subq; G ares_status_t g_end_status, g_next_status, g_parse_status; G _Bool g_parse_adds; G ares_dns_rec_type_t g_subq_type[2];
#endif
