/* stand-ins for static helpers of ares_send.c: a fresh id is any id not in use (generate_unique_qid loops until the table says so);
 * DNS 0x20 case randomisation succeeds or fails for lack of memory */
#include "ares_private.h"
#include "nd.h"
extern unsigned short snl_id; extern _Bool snl_oom;
unsigned short generate_unique_qid(ares_channel_t *channel) { return snl_id; }
ares_status_t ares_apply_dns0x20(ares_channel_t *channel, ares_dns_record_t *dnsrec) { return (snl_oom && nondet_bool()) ? ARES_ENOMEM : ARES_SUCCESS; }
