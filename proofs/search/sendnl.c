/* C01/C14: the raw send entry point -- ares_send_nolock() of the real src/lib/ares_send.c: the caller's callback fires exactly once
 * on every path that does not leave a request outstanding (no server, cache hit or cache failure, every allocation failure), never on
 * the path that does; a request object is either registered (all_queries + id index, then handed to ares_send_query) or released,
 * exactly once -- also when the callback re-enters the library and cancels the channel.
 * ASSUMED: ares_send_query() either keeps the request outstanding (success) or completes it itself through end_query()
 * (process.send_query / process.end_query); ares_free_query() detaches and releases (process.end_query); an adversarial callback may
 * call ares_cancel(), which completes and releases every request that is in all_queries. */
#include "nd.h"
#include <stdlib.h>
#include <string.h>
#include "src/lib/ares_send.c"
unsigned short snl_id; _Bool snl_oom;
static int g_cb, g_cb_status, g_freed, g_sent, g_dup_destroyed; static _Bool g_dup_made; static _Bool g_in_all, g_in_qid, g_cache_hit, g_cancel_in_cb, g_have_servers; static ares_status_t g_cache_status, g_dup_status, g_send_status; static ares_query_t *g_q; static char node_tok, rec_tok, cached_tok;
static void release_query(ares_query_t *q) { __CPROVER_assert(q == g_q && g_freed == 0, "C01: a request object is released exactly once"); g_freed++; g_in_all = 0; g_in_qid = 0; free(q); }
/* ares_free_query()/end_query() also release the request's own copy of the DNS record; a bare ares_free() of the struct does not */
static void release_query_and_record(ares_query_t *q) { if (q == g_q && g_freed == 0 && q->query != NULL) g_dup_destroyed++; release_query(q); }
static void user_cb(void *arg, ares_status_t status, size_t timeouts, const ares_dns_record_t *dnsrec)
{
  g_cb++; g_cb_status = status;
  if (g_cancel_in_cb && g_in_all && g_q != NULL && g_freed == 0) { g_cb++; /* ares_cancel(): ECANCELLED for the request found in all_queries */ release_query_and_record(g_q); }
}
size_t ares_slist_len(const ares_slist_t *l) { return g_have_servers ? 1 : 0; }
void ares_tvnow(ares_timeval_t *now) { now->sec = 1; now->usec = 0; }
ares_status_t ares_qcache_fetch(ares_channel_t *c, const ares_timeval_t *now, const ares_dns_record_t *req, const ares_dns_record_t **resp) { if (g_cache_status == ARES_SUCCESS) *resp = (const ares_dns_record_t *)&cached_tok; return g_cache_status; }
void *ares_malloc(size_t n) { if (snl_oom && nondet_bool()) return NULL; void *p = malloc(n); __CPROVER_assume(p != NULL); g_q = p; return p; }
void ares_free(void *p) { if (p == NULL) return; release_query(p); }
ares_status_t ares_dns_record_duplicate_ex(ares_dns_record_t **dest, const ares_dns_record_t *src) { if (g_dup_status != ARES_SUCCESS) { *dest = NULL; return g_dup_status; } *dest = (ares_dns_record_t *)&rec_tok; g_dup_made = 1; return ARES_SUCCESS; }
ares_bool_t ares_dns_record_set_id(ares_dns_record_t *r, unsigned short id) { __CPROVER_assert(id == snl_id, "C05: the request carries the fresh id"); return ARES_TRUE; }
ares_llist_node_t *ares_llist_insert_last(ares_llist_t *l, void *v) { if (snl_oom && nondet_bool()) return NULL; __CPROVER_assert(v == (void *)g_q, "the request is listed"); g_in_all = 1; return (ares_llist_node_t *)&node_tok; }
ares_bool_t ares_htable_szvp_insert(ares_htable_szvp_t *h, size_t key, void *v) { if (snl_oom && nondet_bool()) return ARES_FALSE; __CPROVER_assert(key == snl_id && v == (void *)g_q, "C05: indexed under its id"); g_in_qid = 1; return ARES_TRUE; }
void ares_free_query(ares_query_t *q) { release_query_and_record(q); }
ares_status_t ares_send_query(ares_server_t *srv, ares_query_t *q, const ares_timeval_t *now)
{
  __CPROVER_assert(q == g_q && g_freed == 0 && g_in_all && g_in_qid, "C01: only a live, fully registered request is transmitted");
  g_sent++; if (g_send_status != ARES_SUCCESS) { g_cb++; g_cb_status = g_send_status; release_query_and_record(q); }   /* end_query(): callback once, released */
  return g_send_status;
}
void h_send_nolock(void)
{
  static ares_channel_t ch; ch.flags = nondet_uint(); g_have_servers = nondet_bool(); g_cache_status = (ares_status_t)(nondet_uint() % 26); g_dup_status = nondet_bool() ? ARES_SUCCESS : (nondet_bool() ? ARES_EBADRESP : ARES_ENOMEM); g_send_status = nondet_bool() ? ARES_SUCCESS : (ares_status_t)(1 + nondet_uint() % 25);
  snl_id = nondet_u16(); snl_oom = nondet_bool(); g_cancel_in_cb = nondet_bool(); g_cb = g_freed = g_sent = g_dup_destroyed = 0; g_dup_made = 0; g_in_all = g_in_qid = 0; g_q = NULL; unsigned short qid = 0; ares_send_flags_t fl = (ares_send_flags_t)(nondet_uint() & 3);
  ares_status_t rv = ares_send_nolock(&ch, NULL, fl, (const ares_dns_record_t *)&cached_tok, user_cb, NULL, &qid);
  if (rv == ARES_SUCCESS && g_sent == 1 && g_send_status == ARES_SUCCESS) {
    __CPROVER_assert(g_cb == 0 && g_freed == 0 && g_in_all && g_in_qid && qid == snl_id, "C01: an accepted request stays outstanding, registered in both indexes, and its id is reported");
    return;
  }
  __CPROVER_assert(g_cb == 1, "C01/C14: a request that is not left outstanding gets exactly one callback (no server, cache answer, any allocation failure, failed transmission) -- also when that callback cancels the channel");
  __CPROVER_assert(g_q == NULL || g_freed == 1, "C01/C14: a request object that was created is released exactly once");
  __CPROVER_assert(g_dup_destroyed == (g_dup_made ? 1 : 0), "C14: the request's own copy of the DNS record is released with it (no leak on any failure path)");
  __CPROVER_assert(rv == (ares_status_t)g_cb_status || (g_dup_status == ARES_EBADRESP && rv == ARES_EBADQUERY), "C01: the status returned is the status given to the callback");
  if (!g_have_servers) __CPROVER_assert(rv == ARES_ENOSERVER, "C09: no server configured");
}
