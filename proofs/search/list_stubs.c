/* ASSUMED: ares_cat_domain() stand-in returning a token per (name, domain) (its buffer arithmetic is proved in search.cat_domain) */
#include "ares_private.h"
extern int g_cat_calls; extern const char *g_cat_dom[2]; extern char tok_cat[2]; extern _Bool g_fail_alloc; _Bool nondet_bool(void);
ares_status_t ares_cat_domain(const char *name, const char *domain, char **s) { if (g_fail_alloc && nondet_bool()) return ARES_ENOMEM; if (g_cat_calls < 2) { g_cat_dom[g_cat_calls] = domain; *s = &tok_cat[g_cat_calls]; } g_cat_calls++; return ARES_SUCCESS; }
extern int g_alias_mode; extern char tok_alias;
/* ASSUMED: ares_lookup_hostaliases() stand-in: an alias applies, none applies, or the lookup fails (file parsing is covered under C15) */
ares_status_t ares_lookup_hostaliases(const ares_channel_t *channel, const char *name, char **alias) { if (g_alias_mode == 1) { *alias = &tok_alias; return ARES_SUCCESS; } return g_alias_mode == 0 ? ARES_ENOTFOUND : ARES_ENOMEM; }
