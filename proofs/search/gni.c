/* C01/C13: ares_getnameinfo_int() and nameinfo_callback() of the real src/lib/ares_getnameinfo.c: the application's callback fires
 * exactly once on every path (validation failure, service only, numeric host, DNS lookup completing at once or later), the
 * request state is released exactly once and not used afterwards, and the reverse lookup is started for exactly the address
 * (and family) inside the socket address given.  Both functions are loop free once the text helpers are stood in for, so
 * the exploration is complete.
 * ASSUMED: ares_gethostbyaddr_nolock() completes its callback exactly once, synchronously or later (search.gethostbyaddr_*). */
#include "nd.h"
#include <stdlib.h>
#include <string.h>
#include "src/lib/ares_getnameinfo.c"
#define GHOST_DEFINE
#include "gni_ghost.h"
static int g_cb, g_cb_status, g_lookups, g_pending; static void *g_parg; static char *g_cb_node, *g_cb_service; static char g_hname[4]; static struct hostent g_host;
static struct sockaddr_in g_sa4; static struct sockaddr_in6 g_sa6; static _Bool g_is6, g_oom, g_sync; static const struct sockaddr *g_sa_ptr;
static void user_cb(void *arg, int status, int timeouts, char *node, char *service) { g_cb++; g_cb_status = status; g_cb_node = node; g_cb_service = service; }
void *ares_malloc(size_t n) { if (g_oom && nondet_bool()) return NULL; void *p = malloc(n); __CPROVER_assume(p != NULL); return p; }
void ares_free(void *p) { free(p); }
const char *ares_inet_ntop(int af, const void *src, char *dst, ares_socklen_t size) { dst[0] = 0; return dst; }
int gethostname(char *name, size_t len) { name[0] = 0; return 0; }
static void complete_lookup(void)
{
  int st = (int)(nondet_uint() % 26); struct hostent *h = NULL; if (st == ARES_SUCCESS) { g_host.h_name = g_hname; h = &g_host; }
  nameinfo_callback(g_parg, st, (int)(nondet_uint() % 4), h);
}
void ares_gethostbyaddr_nolock(ares_channel_t *channel, const void *addr, int addrlen, int family, ares_host_callback callback, void *arg)
{
  g_lookups++; g_parg = arg;
  __CPROVER_assert(callback == nameinfo_callback, "C01: the reverse lookup reports back to this request");
  __CPROVER_assert(family == g_sa_ptr->sa_family && (family == AF_INET || family == AF_INET6), "C13: the reverse lookup uses the family of the socket address");
  if (family == AF_INET6) __CPROVER_assert(addrlen == 16 && memcmp(addr, &((const struct sockaddr_in6 *)g_sa_ptr)->sin6_addr, 16) == 0, "C13: the reverse lookup is for exactly the IPv6 address in the socket address");
  else __CPROVER_assert(addrlen == 4 && memcmp(addr, &((const struct sockaddr_in *)g_sa_ptr)->sin_addr, 4) == 0, "C13: the reverse lookup is for exactly the IPv4 address in the socket address");
  if (g_sync) complete_lookup(); else g_pending = 1;
}
void h_getnameinfo(void)
{
  static ares_channel_t ch; int flags = nondet_int(); g_is6 = nondet_bool(); g_oom = nondet_bool(); g_sync = nondet_bool(); g_cb = g_lookups = g_pending = g_ni_services = 0;
  unsigned char raw[16]; for (int i = 0; i < 16; i++) raw[i] = nondet_uchar();
  memset(&g_sa4, 0, sizeof(g_sa4)); memset(&g_sa6, 0, sizeof(g_sa6)); g_sa4.sin_family = nondet_bool() ? AF_INET : (unsigned short)nondet_u16(); g_sa6.sin6_family = nondet_bool() ? AF_INET6 : (unsigned short)nondet_u16();
  g_sa4.sin_port = nondet_u16(); g_sa6.sin6_port = nondet_u16(); memcpy(&g_sa4.sin_addr, raw, 4); memcpy(&g_sa6.sin6_addr, raw, 16);
  const struct sockaddr *sa = nondet_bool() ? NULL : (g_is6 ? (const struct sockaddr *)&g_sa6 : (const struct sockaddr *)&g_sa4); ares_socklen_t salen = (ares_socklen_t)(nondet_uint() % 64);
  __CPROVER_assume(sa == NULL || salen <= (g_is6 ? sizeof(g_sa6) : sizeof(g_sa4)));   /* the caller's length does not exceed the object it points to */
  g_sa_ptr = sa;
  ares_getnameinfo_int(&ch, sa, salen, flags, user_cb, NULL);
  if (g_pending) { __CPROVER_assert(g_cb == 0, "C01: no completion while the reverse lookup is outstanding"); g_pending = 0; complete_lookup(); }
  __CPROVER_assert(g_cb == 1, "C01: a name-info request completes exactly once");
  __CPROVER_assert(g_lookups <= 1, "C13: at most one reverse lookup per request");
  _Bool valid = sa != NULL && ((sa->sa_family == AF_INET && salen >= sizeof(struct sockaddr_in)) || (sa->sa_family == AF_INET6 && salen >= sizeof(struct sockaddr_in6)));
  if (!valid) __CPROVER_assert(g_cb_status == ARES_ENOTIMP && g_lookups == 0, "C13: an unsupported or truncated socket address is refused");
  if (g_cb_status != ARES_SUCCESS) __CPROVER_assert(g_cb_node == NULL && g_cb_service == NULL, "C13: failure carries no names");
  if ((flags & ARES_NI_NUMERICHOST) || ((flags & ARES_NI_LOOKUPSERVICE) && !(flags & ARES_NI_LOOKUPHOST))) __CPROVER_assert(g_lookups == 0, "C13: numeric-host and service-only requests never query");
}
