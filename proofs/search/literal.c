/* C13/C14/C01: a literal address needs no lookup -- fake_addrinfo() of the real src/lib/ares_getaddrinfo.c: when the name is an
 * IPv4 (dotted quad) or IPv6 literal of an acceptable family the request completes at once with exactly that address, the
 * requested port and TTL 0; the callback fires exactly once whenever the function reports "handled"; the result object is
 * either handed to the callback or released, exactly once, also when an allocation fails.
 * ASSUMED: ares_inet_pton() accepts the (ghost) literal kinds; ares_append_ai_node() = addrinfo.localhost. */
#include "nd.h"
#include <stdlib.h>
#include <string.h>
#include "src/lib/ares_getaddrinfo.c"
static int g_cb, g_cb_status, g_ai_freed, g_nodes; static struct ares_addrinfo *g_cb_ai; static _Bool g_oom, g_is4, g_is6; static int g_node_fam; static unsigned short g_node_port; static unsigned g_node_ttl; static unsigned char g_b4, g_b6;
static struct ares_addrinfo g_ai; static struct ares_addrinfo_node g_node; static struct ares_addrinfo_cname g_cn; static char dup_tok;
static void user_cb(void *arg, int status, int timeouts, struct ares_addrinfo *res) { g_cb++; g_cb_status = status; g_cb_ai = res; __CPROVER_assert(res == NULL || g_ai_freed == 0, "C01: the result handed to the callback has not been released"); }
int ares_inet_pton(int af, const char *src, void *dst) { if (af == AF_INET && g_is4) { ((unsigned char *)dst)[0] = g_b4; return 1; } if (af == AF_INET6 && g_is6) { ((unsigned char *)dst)[0] = g_b6; return 1; } return 0; }
ares_status_t ares_append_ai_node(int aftype, unsigned short port, unsigned int ttl, const void *adata, struct ares_addrinfo_node **nodes)
{ if (g_oom && nondet_bool()) return ARES_ENOMEM; g_nodes++; g_node_fam = aftype; g_node_port = port; g_node_ttl = ttl; __CPROVER_assert(((const unsigned char *)adata)[0] == (aftype == AF_INET ? g_b4 : g_b6), "C13: the address of the literal"); *nodes = &g_node; return ARES_SUCCESS; }
static int g_ai_allocated; static void *g_ai_ptr;
void *ares_malloc_zero(size_t n) { if (g_oom && nondet_bool()) return NULL; void *p = calloc(1, n); __CPROVER_assume(p != NULL); if (n == sizeof(struct ares_addrinfo)) { g_ai_allocated++; g_ai_ptr = p; } return p; }
char *ares_strdup(const char *s) { if (g_oom && nondet_bool()) return NULL; return &dup_tok; }
void ares_freeaddrinfo(struct ares_addrinfo *ai) { if (ai) { __CPROVER_assert(ai == &g_ai || ai == g_ai_ptr, "the result of this request"); g_ai_freed++; } }
void h_gai_literal(void)
{
  char name[6]; size_t ln = nondet_size() % 6; for (size_t i = 0; i < 5; i++) name[i] = i < ln ? (nondet_bool() ? '.' : (nondet_bool() ? '7' : 'x')) : 0; name[5] = 0;
  struct ares_addrinfo_hints hints; memset(&hints, 0, sizeof(hints)); hints.ai_family = nondet_bool() ? AF_UNSPEC : (nondet_bool() ? AF_INET : AF_INET6); hints.ai_flags = nondet_int(); hints.ai_socktype = nondet_int(); hints.ai_protocol = nondet_int();
  unsigned short port = nondet_u16(); g_is4 = nondet_bool(); g_is6 = !g_is4 && nondet_bool(); g_b4 = nondet_uchar(); g_b6 = nondet_uchar(); g_oom = nondet_bool(); g_cb = g_ai_freed = g_nodes = 0; memset(&g_ai, 0, sizeof(g_ai));
  size_t dots = 0; _Bool numeric = 1; for (size_t i = 0; i < 5; i++) if (i < ln) { if (name[i] == '.') dots++; else if (name[i] != '7') numeric = 0; }
  ares_bool_t handled = fake_addrinfo(name, port, &hints, &g_ai, user_cb, NULL);
  if (!handled) { __CPROVER_assert(g_cb == 0 && g_ai_freed == 0 && g_nodes == 0, "C13/C01: a name that is not a literal is left to the lookup: no callback, nothing consumed"); return; }
  __CPROVER_assert(g_cb == 1, "C01: a request answered from a literal completes exactly once");
  __CPROVER_assert((g_cb_ai == &g_ai) != (g_ai_freed == 1) && g_ai_freed <= 1, "C14/C01: the result object is handed to the callback or released, exactly once (no leak when an allocation fails)");
  if (g_cb_status != ARES_SUCCESS) { __CPROVER_assert(g_cb_status == ARES_ENOMEM && g_oom && g_cb_ai == NULL, "C14: a literal fails only for lack of memory"); return; }
  __CPROVER_assert(g_nodes == 1 && g_node_port == port && g_node_ttl == 0, "C13: exactly one address, with the requested port and TTL 0");
  if (g_node_fam == AF_INET) __CPROVER_assert(numeric && dots == 3 && g_is4, "C13: an IPv4 literal is digits with exactly three dots that ares_inet_pton accepts");
  else __CPROVER_assert(g_node_fam == AF_INET6 && g_is6 && hints.ai_family != AF_INET, "C13: otherwise an IPv6 literal, only for an IPv6-capable request");
  if (hints.ai_family != AF_UNSPEC) __CPROVER_assert(g_node_fam == hints.ai_family, "C13: a literal address is returned only in the requested family");
  __CPROVER_assert(g_node.ai_socktype == hints.ai_socktype && g_node.ai_protocol == hints.ai_protocol, "C13: socket type and protocol as requested");
}

/* ---- C14/C01: ares_getaddrinfo_int(): every failure before the lookup walk starts fires the callback once and releases what was
 * allocated (the result object, the request, its name copies); once the walk starts the request owns them. ---- */
int gs_started; void *gs_hq; static int g_names_freed; static _Bool g_snl_ok; static char nm_tok;
ares_bool_t ares_is_onion_domain(const char *name) { return nondet_bool() ? ARES_TRUE : ARES_FALSE; }
ares_status_t ares_search_name_list(const ares_channel_t *channel, const char *name, char ***names, size_t *names_len) { if (!g_snl_ok) { *names = NULL; *names_len = 0; return nondet_bool() ? ARES_ENOMEM : ARES_EBADNAME; } *names = (char **)&nm_tok; *names_len = 1; return ARES_SUCCESS; }
void ares_strsplit_free(char **elms, size_t num_elm) { if (elms) g_names_freed++; }
static int g_allocs, g_frees;
void *gs_malloc_zero(size_t n);
void h_gai_setup(void)
{
  static ares_channel_t ch; static char lk[] = "b"; ch.lookups = lk; struct ares_addrinfo_hints hints; memset(&hints, 0, sizeof(hints)); hints.ai_family = nondet_bool() ? AF_UNSPEC : (nondet_bool() ? AF_INET : (nondet_bool() ? AF_INET6 : nondet_int())); hints.ai_flags = nondet_int() & ~ARES_AI_NUMERICSERV;
  g_is4 = g_is6 = 0; g_oom = nondet_bool(); g_snl_ok = nondet_bool(); g_cb = g_ai_freed = g_nodes = g_names_freed = gs_started = g_ai_allocated = 0; gs_hq = NULL; memset(&g_ai, 0, sizeof(g_ai));
  ares_getaddrinfo_int(&ch, "host", NULL, &hints, user_cb, NULL);
  if (gs_started) { __CPROVER_assert(gs_started == 1 && g_cb == 0 && g_ai_freed == 0, "C01: once the lookup walk starts nothing has completed yet and the result object belongs to the request"); __CPROVER_assert(((struct host_query *)gs_hq)->ai != NULL && ((struct host_query *)gs_hq)->name != NULL && ((struct host_query *)gs_hq)->lookups != NULL, "C01: the request carries its result object and its own copies of name and lookup order"); return; }
  __CPROVER_assert(g_cb == 1 && g_cb_ai == NULL && g_cb_status != ARES_SUCCESS, "C01/C14: a request that cannot be started completes exactly once, with an error and no result");
  __CPROVER_assert(g_ai_allocated == g_ai_freed, "C14: the result object allocated for a request that cannot be started is released (no leak on any early failure)");
}
