/* stand-ins for the static text helpers of ares_getnameinfo.c (service database, scope id, suffix search): not part of C01/C13 */
#include "ares_private.h"
#include "nd.h"
#include "gni_ghost.h"
char *lookup_service(unsigned short port, unsigned int flags, char *buf, size_t buflen) { g_ni_services++; if (nondet_bool()) return NULL; buf[0] = 0; return buf; }
void append_scopeid(const struct sockaddr_in6 *addr6, unsigned int flags, char *buf, size_t buflen) { }
char *ares_striendstr(const char *s1, const char *s2) { return NULL; }
