#ifndef SEARCH_GHOST_H
#define SEARCH_GHOST_H
#endif
