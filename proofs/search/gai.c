/* C12/C01/C13: the candidate walk of ares_getaddrinfo (real host_callback / next_dns_lookup of src/lib/ares_getaddrinfo.c):
 * same stop rule as ares_search, and a round's sub-queries (A and AAAA) are all accounted for before the first is started. */
#include "nd.h"
#include <stdlib.h>
#include <string.h>
#include "src/lib/ares_getaddrinfo.c"
#include "gai_ghost.h"
static char n0[] = "a", n1[] = "a.b"; static char *g_namev[2] = { n0, n1 }; static struct ares_addrinfo g_ai; static struct ares_addrinfo_node g_node; static char rec_tok;
/* ASSUMED: ares_name_label_cnt() counts labels (proved loop-safe in search.name_list); ares_parse_into_addrinfo() by its own proof (addrinfo.from_answers): a status, and nodes only on success */
size_t ares_name_label_cnt(const char *name) { return name == n1 ? 2 : 1; }
ares_status_t ares_parse_into_addrinfo(const ares_dns_record_t *r, ares_bool_t c, unsigned short port, struct ares_addrinfo *ai) { if (g_parse_status == ARES_SUCCESS && g_parse_adds) ai->nodes = &g_node; return g_parse_status; }
unsigned short ares_dns_record_get_id(const ares_dns_record_t *r) { return 7; }
static size_t g_rem0, g_round;
ares_status_t ares_query_nolock(ares_channel_t *channel, const char *name, ares_dns_class_t c, ares_dns_rec_type_t t, ares_callback_dnsrec cb, void *arg, unsigned short *qid)
{
  struct host_query *hq = arg;
  __CPROVER_assert(hq->remaining == g_rem0 + g_round, "C01: every sub-query of a round is counted before the first one is started (a sub-query that completes at once must not make the request look finished)");
  __CPROVER_assert(cb == host_callback && name == g_namev[hq->next_name_idx - 1] && c == ARES_CLASS_IN, "C12: the sub-queries ask for the current candidate name");
  g_subq++; if (g_subq <= 2) g_subq_type[g_subq - 1] = t; return ARES_SUCCESS;
}
static struct host_query g_hq;
static void mk(void)
{
  g_hq.names = g_namev; g_hq.names_cnt = 1 + nondet_size() % 2; g_hq.next_name_idx = 1 + nondet_size() % 2; __CPROVER_assume(g_hq.next_name_idx <= g_hq.names_cnt);
  g_hq.name = n0; g_hq.ai = &g_ai; g_ai.nodes = nondet_bool() ? &g_node : NULL; g_hq.remaining = 1 + nondet_size() % 2; g_hq.nodata_cnt = nondet_size() % 2; g_hq.timeouts = 0;
  g_hq.hints.ai_family = nondet_bool() ? AF_UNSPEC : (nondet_bool() ? AF_INET : AF_INET6);
  g_ended = g_next = g_term = g_subq = 0; g_parse_status = (ares_status_t)(nondet_uint() % 26); g_parse_adds = nondet_bool();
}
void h_gai_callback(void)
{
  mk(); ares_status_t st = (ares_status_t)(nondet_uint() % 26); _Bool have_rec = st == ARES_SUCCESS; size_t rem0 = g_hq.remaining; size_t nd0 = g_hq.nodata_cnt; size_t idx0 = g_hq.next_name_idx;
  host_callback(&g_hq, st, 0, have_rec ? (const ares_dns_record_t *)&rec_tok : NULL);
  __CPROVER_assert(g_ended + g_next <= 1, "C01: one answer ends the lookup or moves it on at most once");
  if (rem0 > 1) { __CPROVER_assert(g_ended + g_next == 0, "C13: the lookup waits until both sub-queries (A and AAAA) of the round have answered"); return; }
  ares_status_t add = have_rec ? g_parse_status : ARES_SUCCESS; _Bool nodes = g_ai.nodes != NULL;
  if (st == ARES_EDESTRUCTION || st == ARES_ECANCELLED) { __CPROVER_assert(g_ended == 1 && g_end_status == st, "C01: cancel / destroy end the lookup with that status, no further candidate is tried"); return; }
  if (add != ARES_SUCCESS && add != ARES_ENODATA) { __CPROVER_assert(g_ended == 1 && g_end_status == ((add == ARES_EBADRESP && nodes) ? ARES_SUCCESS : add), "C13/C14: a conversion error ends the lookup (with what was already found, if anything)"); return; }
  if (nodes) { __CPROVER_assert(g_ended == 1 && g_end_status == ARES_SUCCESS, "C12: the first candidate that yields addresses wins"); return; }
  _Bool soft = st == ARES_ENOTFOUND || st == ARES_ENODATA || add == ARES_ENODATA || ((st == ARES_ESERVFAIL || st == ARES_EREFUSED) && idx0 == 1 /* the candidate just asked is the single-label name */);
  if (soft) { size_t nd = nd0 + ((st == ARES_ENODATA || add == ARES_ENODATA) ? 1 : 0); __CPROVER_assert(g_next == 1 && g_next_status == (nd ? ARES_ENODATA : st), "C12: no data / not found (and SERVFAIL / REFUSED only for a single-label CANDIDATE) move on to the next candidate, remembering no-data"); }
  else __CPROVER_assert(g_ended == 1 && g_end_status == st, "C12: a hard error on a candidate stops the search with that error");
}
void h_gai_next(void)
{
  mk(); g_rem0 = g_hq.remaining; size_t idx0 = nondet_size() % 3; g_hq.next_name_idx = idx0; g_round = g_hq.hints.ai_family == AF_UNSPEC ? 2 : 1;
  ares_bool_t r = next_dns_lookup(&g_hq);
  if (idx0 >= g_hq.names_cnt) { __CPROVER_assert(r == ARES_FALSE && g_subq == 0, "C12: no candidate left"); return; }
  __CPROVER_assert(r == ARES_TRUE && (size_t)g_subq == g_round && g_hq.next_name_idx == idx0 + 1, "C12/C13: one round asks the next candidate for every requested family");
  if (g_round == 2) __CPROVER_assert(g_subq_type[0] == ARES_REC_TYPE_A && g_subq_type[1] == ARES_REC_TYPE_AAAA, "C13: both families are asked when unspecified");
  else __CPROVER_assert(g_subq_type[0] == (g_hq.hints.ai_family == AF_INET ? ARES_REC_TYPE_A : ARES_REC_TYPE_AAAA), "C13: restricted to the requested family");
}
