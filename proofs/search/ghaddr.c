/* C01/C13/C12: the reverse-lookup walk of the real src/lib/ares_gethostbyaddr.c (ares_gethostbyaddr_nolock, next_lookup,
 * addr_callback, end_aquery, file_lookup): the application's callback fires exactly once, the request state is released exactly
 * once and never used afterwards -- also when a PTR query completes synchronously from inside ares_query_nolock() -- the PTR
 * query is for the reverse-map name of the given address, sources are tried in the order of the lookups string, and the
 * first source that has the address ends the walk.
 * ASSUMED: ares_query_nolock() either completes its callback synchronously (any status) or leaves the query outstanding
 * (search.send_nolock / process.*); ares_dns_addr_to_ptr() = addrinfo.addr_to_ptr; hosts-file and PTR-reply conversion
 * return a host entry token or fail. */
#include "nd.h"
#include <stdlib.h>
#include <string.h>
#include "src/lib/ares_gethostbyaddr.c"
#ifndef LMAX
#define LMAX 2
#endif
static int g_cb, g_cb_status, g_outstanding, g_queries, g_filelookups, g_host_freed, g_sync_budget; static struct hostent g_host_file, g_host_ptr; static struct hostent *g_cb_host;
static void *g_pending_arg; static char name_tok[4]; static unsigned char g_in_addr[16]; static size_t g_k; /* ghost index: an arbitrary byte position, chosen once, stands for every position */
static _Bool same_addr(const void *p, int fam) { const unsigned char *q = p; return !(fam == AF_INET6 || g_k < 4) || q[g_k] == g_in_addr[g_k]; } static int g_in_family; static _Bool g_oom, g_file_has, g_ptr_ok; static char g_order[LMAX + 1]; static size_t g_norder;
static void user_cb(void *arg, int status, int timeouts, struct hostent *host) { g_cb++; g_cb_status = status; g_cb_host = host; __CPROVER_assert(g_host_freed == 0, "C01/C13: the host entry handed to the callback is still valid"); }
char *ares_strdup(const char *s) { if (g_oom && nondet_bool()) return NULL; char *p = malloc(LMAX + 1); __CPROVER_assume(p != NULL); for (int i = 0; i <= LMAX; i++) p[i] = s[i]; return p; }
void *ares_malloc(size_t n) { if (g_oom && nondet_bool()) return NULL; void *p = malloc(n); __CPROVER_assume(p != NULL); return p; }
void ares_free(void *p) { if (p == (void *)name_tok) return; free(p); }
char *ares_dns_addr_to_ptr(const struct ares_addr *a)
{
  __CPROVER_assert(a->family == g_in_family && same_addr(&a->addr, g_in_family), "C13: the reverse-map name is built from the address the caller gave");
  if (g_oom && nondet_bool()) return NULL; return name_tok;
}
static void addr_callback(void *arg, ares_status_t status, size_t timeouts, const ares_dns_record_t *dnsrec);
ares_status_t ares_query_nolock(ares_channel_t *channel, const char *name, ares_dns_class_t c, ares_dns_rec_type_t t, ares_callback_dnsrec cb, void *arg, unsigned short *qid)
{
  __CPROVER_assert(name == name_tok && c == ARES_CLASS_IN && t == ARES_REC_TYPE_PTR, "C13: a reverse lookup queries PTR, class IN, for the reverse-map name");
  __CPROVER_assert(g_outstanding == 0, "C01: one PTR query at a time");
  g_queries++; if (g_norder < LMAX) g_order[g_norder++] = 'b';
#ifdef SYNC
  /* completes synchronously: no server, cache hit, send failure ... (the callback runs before ares_query_nolock returns) */
  { ares_status_t st = (ares_status_t)(nondet_uint() % 26); cb(arg, st, nondet_size() % 4, NULL); return st; }
#endif
  g_outstanding = 1; g_pending_arg = arg; return ARES_SUCCESS;
}
const char *ares_inet_ntop(int af, const void *src, char *dst, ares_socklen_t size) { dst[0] = 0; return dst; /* cannot fail for AF_INET/AF_INET6 with an INET6_ADDRSTRLEN buffer */ }
ares_status_t ares_hosts_search_ipaddr(ares_channel_t *channel, ares_bool_t use_env, const char *ipaddr, const ares_hosts_entry_t **entry) { g_filelookups++; if (g_norder < LMAX) g_order[g_norder++] = 'f'; if (!g_file_has) return nondet_bool() ? ARES_ENOTFOUND : ARES_ENOMEM; *entry = (const ares_hosts_entry_t *)name_tok; return ARES_SUCCESS; }
ares_status_t ares_hosts_entry_to_hostent(const ares_hosts_entry_t *entry, int family, struct hostent **hostent) { if (g_oom && nondet_bool()) return ARES_ENOMEM; *hostent = &g_host_file; return ARES_SUCCESS; }
ares_status_t ares_parse_ptr_reply_dnsrec(const ares_dns_record_t *dnsrec, const void *addr, int addr_len, int family, struct hostent **host)
{
  __CPROVER_assert(family == g_in_family && addr_len == (family == AF_INET ? 4 : 16) && same_addr(addr, family), "C13: the PTR answer is converted for the address that was asked about");
  if (!g_ptr_ok) { *host = NULL; return nondet_bool() ? ARES_ENODATA : ARES_EBADRESP; } *host = &g_host_ptr; return ARES_SUCCESS;
}
void ares_free_hostent(struct hostent *h) { __CPROVER_assert(h == &g_host_file || h == &g_host_ptr, "a host entry produced by this lookup"); g_host_freed++; }
void h_gethostbyaddr(void)
{
  static ares_channel_t ch; char lk[LMAX + 1]; size_t ln = nondet_size() % (LMAX + 1);
  for (size_t i = 0; i < LMAX; i++) lk[i] = i < ln ? (nondet_bool() ? 'b' : (nondet_bool() ? 'f' : 'x')) : 0; lk[LMAX] = 0; ch.lookups = lk;
  g_in_family = nondet_bool() ? AF_INET : (nondet_bool() ? AF_INET6 : nondet_int()); for (int i = 0; i < 16; i++) g_in_addr[i] = nondet_uchar(); int alen = nondet_int(); g_k = nondet_size() % 16;
  g_cb = g_outstanding = g_queries = g_filelookups = g_host_freed = 0; g_norder = 0; g_sync_budget = LMAX; g_oom = nondet_bool(); g_file_has = nondet_bool(); g_ptr_ok = nondet_bool();
  ares_gethostbyaddr_nolock(&ch, g_in_addr, alen, g_in_family, user_cb, NULL);
  _Bool valid = (g_in_family == AF_INET && alen == 4) || (g_in_family == AF_INET6 && alen == 16);
  if (!valid) { __CPROVER_assert(g_cb == 1 && g_cb_status == ARES_ENOTIMP && g_queries == 0, "C01/C13: an unsupported family or address length completes at once with ENOTIMP"); return; }
  /* the outstanding PTR queries complete one after the other with arbitrary outcomes */
  for (int round = 0; round < LMAX; round++) if (g_outstanding) {
    __CPROVER_assert(g_cb == 0, "C01: no completion while a query of the request is outstanding");
    g_outstanding = 0; ares_status_t st = (ares_status_t)(nondet_uint() % 26); addr_callback(g_pending_arg, st, nondet_size() % 4, NULL);
  }
  __CPROVER_assert(g_outstanding == 0, "C06: the walk ends within the length of the lookups string");
  __CPROVER_assert(g_cb == 1, "C01: a reverse lookup completes exactly once");
  __CPROVER_assert(g_host_freed == (g_cb_host != NULL ? 1 : 0), "C13/C14: a host entry is released exactly once, after the callback saw it");
  for (size_t i = 0, k = 0; i < LMAX; i++) if (k < g_norder && (lk[i] == 'b' || lk[i] == 'f')) { __CPROVER_assert(g_order[k] == lk[i], "C12/C13: sources are consulted in the order of the lookups string"); k++; }
  if (g_cb_status == ARES_SUCCESS) __CPROVER_assert(g_cb_host == &g_host_file || g_cb_host == &g_host_ptr, "C13: success carries the host entry of the source that answered");
  else __CPROVER_assert(g_cb_host == NULL, "C13: failure carries no host entry");
}
