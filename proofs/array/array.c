/* C19/C14: the real src/lib/dsa/ares_array.c (+ util/ares_math.c for ares_round_up_pow2).
 * P tier: structural contracts (well-formedness, counts, returned slot, frame) for every state with
 *         alloc_cnt <= MAXCNT and a constant member size MS (two symbolic factors are intractable: DESIGN §2.5b).
 *         ares_array_move and ares_array_set_size are proved once and used as contracts by their callers.
 * B tier (-DVERIF_EXACT_LIBC): sequence semantics, exact byte-loop libc models, member size 1, alloc_cnt <= 4,
 *         state-constructed (every well-formed array within the bound, not only API-reachable ones). */
#include "alloc.h"
#ifndef VERIF_EXACT_LIBC
#define memcpy  v_memcpy
#define memmove v_memmove
#define memset  v_memset
#else
#define memcpy  x_memmove
#define memmove x_memmove
#define memset  x_memset
#endif
#include "src/lib/util/ares_math.c"
#include "src/lib/dsa/ares_array.c"
#undef memcpy
#undef memmove
#undef memset

#ifndef MS
#define MS 8
#endif
#ifndef MAXCNT
#define MAXCNT 4096
#endif
#define ARR_WF_N(a, N) (__CPROVER_is_fresh(a, sizeof(*(a))) && (a)->member_size == MS && (a)->destruct == NULL && \
   (a)->alloc_cnt <= (N) && (a)->offset <= (a)->alloc_cnt && (a)->cnt <= (a)->alloc_cnt - (a)->offset && \
   ((a)->alloc_cnt == 0 ? (a)->arr == NULL : __CPROVER_is_fresh((a)->arr, (a)->alloc_cnt * MS)))
#define ARR_WF(a) ARR_WF_N(a, MAXCNT)
#define ARR_OK(a) ((a)->member_size == MS && (a)->alloc_cnt <= 2 * MAXCNT && (a)->offset <= (a)->alloc_cnt && \
   (a)->cnt <= (a)->alloc_cnt - (a)->offset && \
   ((a)->alloc_cnt == 0 ? (a)->arr == NULL : __CPROVER_rw_ok((a)->arr, (a)->alloc_cnt * MS)))

#ifndef VERIF_EXACT_LIBC
/* internal mover (actual indexes).  The second precondition is the call-site fact of its three callers: src is the
 * first moved member and lies inside [offset, offset+cnt]. */
static ares_status_t ares_array_move(ares_array_t *arr, size_t dest_idx, size_t src_idx)
__CPROVER_requires(ARR_WF_N(arr, 2 * MAXCNT))
__CPROVER_requires(src_idx >= arr->offset && src_idx - arr->offset <= arr->cnt)
/* a move to the right needs the whole live range to still fit (the function's own check ignores offset; every caller establishes this) */
__CPROVER_requires(dest_idx <= src_idx || arr->offset + arr->cnt + (dest_idx - src_idx) <= arr->alloc_cnt)
__CPROVER_assigns(arr->arr != NULL: __CPROVER_object_whole(arr->arr))
__CPROVER_ensures((dest_idx < arr->alloc_cnt && src_idx < arr->alloc_cnt && 1) ==> __CPROVER_return_value == ARES_SUCCESS)
__CPROVER_ensures(__CPROVER_return_value == ARES_SUCCESS || __CPROVER_return_value == ARES_EFORMERR)
;
void h_move(void) { ares_array_t *a; size_t d, s; ares_array_move(a, d, s); }

ares_status_t ares_array_set_size(ares_array_t *arr, size_t size)
__CPROVER_requires(ARR_WF(arr) && size <= MAXCNT + 1)
__CPROVER_assigns(arr->arr, arr->alloc_cnt)
__CPROVER_frees(arr->arr)
__CPROVER_ensures(arr->member_size == MS && arr->alloc_cnt <= 2 * MAXCNT && arr->offset <= arr->alloc_cnt && arr->cnt <= arr->alloc_cnt - arr->offset)
__CPROVER_ensures(arr->alloc_cnt == 0 ? arr->arr == NULL : (arr->arr == __CPROVER_old(arr->arr) || __CPROVER_is_fresh(arr->arr, arr->alloc_cnt * MS)))
__CPROVER_ensures(arr->cnt == __CPROVER_old(arr->cnt) && arr->offset == __CPROVER_old(arr->offset))
__CPROVER_ensures(__CPROVER_return_value == ARES_SUCCESS ==> (arr->alloc_cnt >= size && arr->alloc_cnt >= __CPROVER_old(arr->alloc_cnt)))
/* failure-atomic (C14): on ENOMEM/EFORMERR the allocation is untouched */
__CPROVER_ensures(__CPROVER_return_value != ARES_SUCCESS ==> (arr->alloc_cnt == __CPROVER_old(arr->alloc_cnt) && arr->arr == __CPROVER_old(arr->arr)))
__CPROVER_ensures((__CPROVER_return_value == ARES_EFORMERR) == (size == 0 || size < arr->cnt))
__CPROVER_ensures(__CPROVER_return_value == ARES_SUCCESS || __CPROVER_return_value == ARES_EFORMERR || __CPROVER_return_value == ARES_ENOMEM)
;
void h_set_size(void) { ares_array_t *a; size_t n; ares_array_set_size(a, n); }

ares_status_t ares_array_insert_at(void **elem_ptr, ares_array_t *arr, size_t idx)
__CPROVER_requires(ARR_WF(arr))
__CPROVER_requires(elem_ptr == NULL || __CPROVER_is_fresh(elem_ptr, sizeof(*elem_ptr)))
__CPROVER_assigns(__CPROVER_object_whole(arr); arr->arr != NULL: __CPROVER_object_whole(arr->arr); elem_ptr != NULL: *elem_ptr)
__CPROVER_frees(arr->arr)
__CPROVER_ensures(ARR_OK(arr))
__CPROVER_ensures(__CPROVER_return_value == ARES_SUCCESS || __CPROVER_return_value == ARES_ENOMEM || __CPROVER_return_value == ARES_EFORMERR)
/* from the ADT (C19: "stays usable after any removal pattern"): inserting at a valid index can only fail for lack of memory */
__CPROVER_ensures((__CPROVER_return_value == ARES_EFORMERR) == (idx > __CPROVER_old(arr->cnt)))
__CPROVER_ensures(__CPROVER_return_value == ARES_SUCCESS ==> arr->cnt == __CPROVER_old(arr->cnt) + 1)
__CPROVER_ensures(__CPROVER_return_value != ARES_SUCCESS ==> arr->cnt == __CPROVER_old(arr->cnt))
__CPROVER_ensures((__CPROVER_return_value == ARES_SUCCESS && elem_ptr != NULL) ==> *elem_ptr == (unsigned char *)arr->arr + (idx + arr->offset) * MS)
;
void h_insert_at(void) { void **e; ares_array_t *a; size_t i; ares_array_insert_at(e, a, i); }

ares_status_t ares_array_claim_at(void *dest, size_t dest_size, ares_array_t *arr, size_t idx)
__CPROVER_requires(ARR_WF(arr))
__CPROVER_requires(dest == NULL || (dest_size <= 64 && __CPROVER_is_fresh(dest, dest_size)))
__CPROVER_assigns(arr->cnt, arr->offset; arr->arr != NULL: __CPROVER_object_whole(arr->arr); dest != NULL: __CPROVER_object_whole(dest))
__CPROVER_ensures(ARR_OK(arr))
__CPROVER_ensures((__CPROVER_return_value == ARES_SUCCESS) == (idx < __CPROVER_old(arr->cnt) && (dest == NULL || dest_size >= MS)))
__CPROVER_ensures(__CPROVER_return_value == ARES_SUCCESS ==> arr->cnt == __CPROVER_old(arr->cnt) - 1)
__CPROVER_ensures(__CPROVER_return_value != ARES_SUCCESS ==> (arr->cnt == __CPROVER_old(arr->cnt) && arr->offset == __CPROVER_old(arr->offset)))
;
void h_claim_at(void) { void *d; size_t ds; ares_array_t *a; size_t i; ares_array_claim_at(d, ds, a, i); }

void *ares_array_at(ares_array_t *arr, size_t idx)
__CPROVER_requires(ARR_WF(arr))
__CPROVER_assigns()
__CPROVER_ensures(idx >= arr->cnt ? __CPROVER_return_value == NULL : (__CPROVER_return_value == (unsigned char *)arr->arr + (idx + arr->offset) * MS && __CPROVER_rw_ok(__CPROVER_return_value, MS)))
;
void h_at(void) { ares_array_t *a; size_t i; ares_array_at(a, i); }

void *ares_array_finish(ares_array_t *arr, size_t *num_members)
__CPROVER_requires(ARR_WF(arr) && __CPROVER_is_fresh(num_members, sizeof(*num_members)))
__CPROVER_assigns(*num_members, arr->offset; arr->arr != NULL: __CPROVER_object_whole(arr->arr))
__CPROVER_frees(arr)
__CPROVER_ensures(__CPROVER_return_value != NULL ==> (*num_members == __CPROVER_old(arr->cnt) && __CPROVER_return_value == __CPROVER_old(arr->arr)))
;
void h_finish(void) { ares_array_t *a; size_t *n; ares_array_finish(a, n); }

#else /* ------------------------------- B tier: sequence semantics ------------------------------------ */
#define BMAX 4
#ifndef WHICH
#define WHICH 0
#endif
typedef unsigned char elem_t;
static ares_array_t g_a; static elem_t g_model[BMAX + 1]; static size_t g_cnt;
/* construct an arbitrary well-formed array with alloc_cnt <= BMAX */
static void mk_array(void)
{
  /* allocation sizes the library can produce within the bound: none yet, or ARES__ARRAY_MIN */
  size_t alloc = nondet_bool() ? BMAX : 0, off = nondet_size(), cnt = nondet_size();
  __CPROVER_assume(off <= alloc && cnt <= alloc - off);
  g_a.member_size = sizeof(elem_t); g_a.destruct = NULL; g_a.alloc_cnt = alloc; g_a.offset = off; g_a.cnt = cnt;
  g_a.arr = NULL;
  if (alloc > 0) { g_a.arr = malloc(BMAX * sizeof(elem_t)); __CPROVER_assume(g_a.arr != NULL); }
  for (size_t i = 0; i < BMAX; i++) if (i < cnt) { elem_t v = nondet_uchar(); ((elem_t *)g_a.arr)[off + i] = v; g_model[i] = v; }
  g_cnt = cnt;
}
#define AT(i) (*(elem_t *)ares_array_at(&g_a, (i)))
void hb_insert_at(void)
{
  size_t idx = nondet_size(); void *p = NULL; mk_array();
  ares_status_t rv = ares_array_insert_at(&p, &g_a, idx);
  __CPROVER_assert((rv == ARES_EFORMERR) == (idx > g_cnt), "C19: insert at a valid index fails only for lack of memory");
  __CPROVER_assert(rv == ARES_SUCCESS || rv == ARES_EFORMERR || rv == ARES_ENOMEM, "status set");
  if (rv == ARES_SUCCESS) {
    __CPROVER_assert(ares_array_len(&g_a) == g_cnt + 1, "C19: length grows by one");
    __CPROVER_assert(p == ares_array_at(&g_a, idx), "C19: returned slot is element idx");
    for (size_t i = 0; i <= BMAX; i++) if (i <= g_cnt) {
      elem_t want = i < idx ? g_model[i] : (i == idx ? 0 : g_model[i - 1]);
      __CPROVER_assert(AT(i) == want, "C19: sequence after insert_at = old[0..idx) ++ [0] ++ old[idx..)");
    }
  } else {
    __CPROVER_assert(ares_array_len(&g_a) == g_cnt, "C14/C19: failed insert leaves the length unchanged");
    for (size_t i = 0; i < BMAX; i++) if (i < g_cnt) __CPROVER_assert(AT(i) == g_model[i], "C14/C19: failed insert leaves the sequence unchanged");
  }
}
void hb_claim_at(void)
{
  size_t idx = nondet_size(); elem_t out = 0; _Bool want_out = nondet_bool(); mk_array();
  ares_status_t rv = ares_array_claim_at(want_out ? &out : NULL, want_out ? sizeof(out) : 0, &g_a, idx);
  __CPROVER_assert((rv == ARES_SUCCESS) == (idx < g_cnt), "C19: claim succeeds exactly for a valid index");
  if (rv == ARES_SUCCESS) {
    __CPROVER_assert(ares_array_len(&g_a) == g_cnt - 1, "C19: length shrinks by one");
    __CPROVER_assert(!want_out || out == g_model[idx], "C19: claimed value is element idx");
    for (size_t i = 0; i < BMAX; i++) if (i + 1 < g_cnt) __CPROVER_assert(AT(i) == (i < idx ? g_model[i] : g_model[i + 1]), "C19: sequence after removal = old without element idx");
  } else {
    for (size_t i = 0; i < BMAX; i++) if (i < g_cnt) __CPROVER_assert(AT(i) == g_model[i], "C19: failed claim leaves the sequence unchanged");
  }
}
void hb_insertdata(void)
{
  elem_t v = nondet_uchar(); unsigned which = WHICH; size_t idx = nondet_size(); mk_array();
  ares_status_t rv;
  if (which == 0) { rv = ares_array_insertdata_first(&g_a, &v); idx = 0; }
  else if (which == 1) { rv = ares_array_insertdata_last(&g_a, &v); idx = g_cnt; }
  else { __CPROVER_assume(idx <= g_cnt); rv = ares_array_insertdata_at(&g_a, idx, &v); }
  __CPROVER_assert(rv == ARES_SUCCESS || rv == ARES_ENOMEM, "C19: inserting data at a valid index fails only for lack of memory");
  if (rv == ARES_SUCCESS) {
    __CPROVER_assert(ares_array_len(&g_a) == g_cnt + 1, "C19: length grows by one");
    for (size_t i = 0; i <= BMAX; i++) if (i <= g_cnt) {
      elem_t want = i < idx ? g_model[i] : (i == idx ? v : g_model[i - 1]);
      __CPROVER_assert(AT(i) == want, "C19: insertdata_first/_last/_at put the value at index 0 / cnt / idx and keep the order of the rest");
    }
  }
}
void hb_remove_ends(void)
{
  _Bool first = nondet_bool(); mk_array();
  ares_status_t rv = first ? ares_array_remove_first(&g_a) : ares_array_remove_last(&g_a);
  __CPROVER_assert((rv == ARES_SUCCESS) == (g_cnt > 0), "C19: remove_first/last succeed exactly on a non-empty array");
  if (rv == ARES_SUCCESS) {
    __CPROVER_assert(ares_array_len(&g_a) == g_cnt - 1, "C19: length shrinks by one");
    for (size_t i = 0; i < BMAX; i++) if (i + 1 < g_cnt) __CPROVER_assert(AT(i) == (first ? g_model[i + 1] : g_model[i]), "C19: remove_first drops element 0, remove_last drops element cnt-1");
    __CPROVER_assert(ares_array_first(&g_a) == ares_array_at(&g_a, 0) && ares_array_last(&g_a) == (g_cnt > 1 ? ares_array_at(&g_a, g_cnt - 2) : NULL), "C19: first/last accessors");
  }
}
/* drain (from either end, any pattern) then insert: the array stays usable after any removal pattern */
void hb_drain_then_insert(void)
{
  mk_array();
  for (size_t i = 0; i < BMAX; i++) if (ares_array_len(&g_a) > 0) { ares_status_t r = nondet_bool() ? ares_array_remove_first(&g_a) : ares_array_remove_last(&g_a); __CPROVER_assert(r == ARES_SUCCESS, "C19: removal from a non-empty array succeeds"); }
  __CPROVER_assert(ares_array_len(&g_a) == 0, "C19: drained");
  elem_t v = nondet_uchar(); ares_status_t rv = ares_array_insertdata_last(&g_a, &v);
  __CPROVER_assert(rv == ARES_SUCCESS || rv == ARES_ENOMEM, "C19: an emptied array accepts inserts");
  if (rv == ARES_SUCCESS) __CPROVER_assert(ares_array_len(&g_a) == 1 && AT(0) == v, "C19: value stored at index 0");
}
#endif
