/* C04: "presentation-format names round-trip through escaping without changing the underlying label bytes":
 * the real decoder-side escaper (ares_fetch_dnsname_into_buf) followed by the real encoder-side un-escaper
 * (ares_split_dns_name) of src/lib/record/ares_dns_name.c, for every 3-byte label.
 * ASSUMED: ares_buf_* and the label array are replaced by a minimal fixed-capacity model (append/fetch/peek/len on a 24-byte store); the real buffer is proved in proofs/buf */
#include "nd.h"
#include <stdlib.h>
#include <string.h>
#include "ares_private.h"
struct ares_buf { unsigned char d[24]; size_t len, off; };
static struct ares_buf g_pool[4]; static int g_used;
ares_buf_t *ares_buf_create(void) { __CPROVER_assert(g_used < 4, "model capacity"); ares_buf_t *b = &g_pool[g_used++]; b->len = b->off = 0; return b; }
void ares_buf_destroy(ares_buf_t *b) {}
ares_status_t ares_buf_append(ares_buf_t *b, const unsigned char *p, size_t n) { for (size_t i = 0; i < n; i++) { __CPROVER_assert(b->len < 24, "model capacity"); b->d[b->len++] = p[i]; } return ARES_SUCCESS; }
ares_status_t ares_buf_append_byte(ares_buf_t *b, unsigned char c) { return ares_buf_append(b, &c, 1); }
size_t ares_buf_len(const ares_buf_t *b) { return b == NULL ? 0 : b->len - b->off; }
const unsigned char *ares_buf_peek(const ares_buf_t *b, size_t *l) { *l = b->len - b->off; return b->d + b->off; }
ares_status_t ares_buf_consume(ares_buf_t *b, size_t n) { if (b->len - b->off < n) return ARES_EBADRESP; b->off += n; return ARES_SUCCESS; }
ares_status_t ares_buf_fetch_bytes(ares_buf_t *b, unsigned char *o, size_t n) { if (n == 0 || b->len - b->off < n) return ARES_EBADRESP; for (size_t i = 0; i < n; i++) o[i] = b->d[b->off + i]; b->off += n; return ARES_SUCCESS; }
size_t ares_buf_get_position(const ares_buf_t *b) { return b->off; }
ares_status_t ares_buf_set_position(ares_buf_t *b, size_t i) { b->off = i; return ARES_SUCCESS; }
char *ares_buf_finish_str(ares_buf_t *b, size_t *l) { b->d[b->len] = 0; return (char *)b->d; }
ares_status_t ares_buf_append_be16(ares_buf_t *b, unsigned short v) { return ARES_SUCCESS; }
/* decimal rendering with a minimum width (model of the real ares_buf_append_num_dec, widths <= 3) */
ares_status_t ares_buf_append_num_dec(ares_buf_t *b, size_t num, size_t len) { unsigned char t[3]; size_t n = num % 1000; t[0] = '0' + (n / 100); t[1] = '0' + ((n / 10) % 10); t[2] = '0' + (n % 10); size_t w = len ? len : (n >= 100 ? 3 : (n >= 10 ? 2 : 1)); if (w > 3) w = 3; return ares_buf_append(b, t + (3 - w), w); }
/* label array model: at most 2 labels */
static ares_buf_t *g_lab[3]; static size_t g_nlab; static char arr_tok;
ares_array_t *ares_array_create(size_t ms, ares_array_destructor_t d) { g_nlab = 0; return (ares_array_t *)&arr_tok; }
void ares_array_destroy(ares_array_t *a) {}
size_t ares_array_len(const ares_array_t *a) { return g_nlab; }
ares_status_t ares_array_insert_last(void **e, ares_array_t *a) { __CPROVER_assert(g_nlab < 3, "model capacity"); *e = &g_lab[g_nlab++]; return ARES_SUCCESS; }
ares_status_t ares_array_remove_last(ares_array_t *a) { if (g_nlab == 0) return ARES_EFORMERR; g_nlab--; return ARES_SUCCESS; }
void *ares_array_last(ares_array_t *a) { return g_nlab ? &g_lab[g_nlab - 1] : NULL; }
void *ares_array_at(ares_array_t *a, size_t i) { return i < g_nlab ? &g_lab[i] : NULL; }
size_t ares_strlen(const char *s) { size_t n = 0; for (int i = 0; i < 24; i++) { if (s[i] == 0) break; n++; } return n; }
void ares_free(void *p) {}
#include "src/lib/record/ares_dns_name.c"
#ifndef LABLEN
#define LABLEN 3
#endif
void h_escape_roundtrip(void)
{
  ares_buf_t *src = ares_buf_create(); unsigned char lab[3]; lab[0] = nondet_uchar(); lab[1] = nondet_uchar(); lab[2] = nondet_uchar(); ares_buf_append(src, lab, LABLEN);
  ares_buf_t *dest = ares_buf_create();
  ares_status_t rv = ares_fetch_dnsname_into_buf(src, dest, LABLEN, ARES_FALSE);
  __CPROVER_assert(rv == ARES_SUCCESS, "C04: any label bytes can be presented");
  char *text = ares_buf_finish_str(dest, NULL);
  ares_array_t *labels = ares_array_create(sizeof(ares_buf_t *), NULL);
  rv = ares_split_dns_name(labels, ARES_FALSE, text);
  __CPROVER_assert(rv == ARES_SUCCESS, "C04: the presented name is accepted back");
  __CPROVER_assert(ares_array_len(labels) == 1, "C04: one label stays one label (dots inside a label are escaped)");
  ares_buf_t **lp = ares_array_at(labels, 0); size_t l = 0; const unsigned char *p = ares_buf_peek(*lp, &l);
  __CPROVER_assert(l == LABLEN && p[0] == lab[0] && (LABLEN < 2 || p[1] == lab[1]) && (LABLEN < 3 || p[2] == lab[2]), "C04: presentation format round-trips to the same label bytes");
}
