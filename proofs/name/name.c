/* C02/C04: DNS name decoding in the real src/lib/record/ares_dns_name.c (+ ares_buf.c for the reader geometry).
 * Output buffers are opaque handles (module-invariant rule, DESIGN.md §2.4): the buf cluster owns their invariant. */
#include "alloc.h"
#define memcpy  v_memcpy
#define memmove v_memmove
#define memchr  v_memchr
#define memcmp  v_memcmp
#include "src/lib/str/ares_buf.c"
#include "src/lib/record/ares_dns_name.c"
#undef memcpy
#undef memmove
#undef memchr
#undef memcmp
#include "buf_spec.h"

/* ---- client-side contracts on the opaque output buffer ----------------------------------------- */
/* ASSUMED: client view of ares_buf_append, append_byte, finish_str, destroy on an output handle: handle stays valid, SUCCESS or ENOMEM, frame = the handle object (owner-side proofs: proofs/buf/writers.c) */
ares_status_t ares_buf_append(ares_buf_t *buf, const unsigned char *data, size_t data_len)
__CPROVER_requires(__CPROVER_rw_ok(buf, sizeof(*buf)) && (data_len == 0 || __CPROVER_r_ok(data, data_len)))
__CPROVER_assigns(__CPROVER_object_whole(buf))
__CPROVER_ensures(__CPROVER_return_value == ARES_SUCCESS || __CPROVER_return_value == ARES_ENOMEM)
;
ares_status_t ares_buf_append_byte(ares_buf_t *buf, unsigned char b)
__CPROVER_requires(__CPROVER_rw_ok(buf, sizeof(*buf)))
__CPROVER_assigns(__CPROVER_object_whole(buf))
__CPROVER_ensures(__CPROVER_return_value == ARES_SUCCESS || __CPROVER_return_value == ARES_ENOMEM)
;
/* ghost: the output handle has been consumed (turned into the result string, or destroyed) */
_Bool g_out_consumed;
char *ares_buf_finish_str(ares_buf_t *buf, size_t *len)
__CPROVER_requires(__CPROVER_rw_ok(buf, sizeof(*buf)) && len == NULL && !g_out_consumed)
__CPROVER_assigns(__CPROVER_object_whole(buf), g_out_consumed)
__CPROVER_ensures(__CPROVER_return_value != NULL ==> __CPROVER_is_fresh(__CPROVER_return_value, 1))
/* the handle is invalidated on EVERY outcome (buf.finish_oom): a caller that destroys it after a failed finish frees it twice */
__CPROVER_ensures(g_out_consumed)
;
void ares_buf_destroy(ares_buf_t *buf)
__CPROVER_requires(buf == NULL || (__CPROVER_rw_ok(buf, sizeof(*buf)) && !g_out_consumed))
__CPROVER_assigns(g_out_consumed)
__CPROVER_ensures(buf != NULL ? g_out_consumed : g_out_consumed == __CPROVER_old(g_out_consumed))
;

/* ---- label copy with escaping ---------------------------------------------------------------------- */
static ares_status_t ares_fetch_dnsname_into_buf(ares_buf_t *buf, ares_buf_t *dest, size_t len, ares_bool_t is_hostname)
__CPROVER_requires(BUF_CONST_WF(buf))
__CPROVER_requires(dest == NULL || __CPROVER_is_fresh(dest, sizeof(*dest)))
__CPROVER_assigns(buf->offset; dest != NULL: __CPROVER_object_whole(dest))
__CPROVER_ensures(BUF_POS_OK(buf))
__CPROVER_ensures(__CPROVER_return_value == ARES_SUCCESS ==> (len > 0 && buf->offset == __CPROVER_old(buf->offset) + len))
__CPROVER_ensures(__CPROVER_return_value != ARES_SUCCESS ==> buf->offset == __CPROVER_old(buf->offset))
__CPROVER_ensures(__CPROVER_return_value == ARES_SUCCESS || __CPROVER_return_value == ARES_EBADRESP || __CPROVER_return_value == ARES_ENOMEM)
;
void h_fetch_label(void) { ares_buf_t *b, *d; size_t l; ares_bool_t hn; ares_fetch_dnsname_into_buf(b, d, l, hn); }

/* ---- whole-name decoding ---------------------------------------------------------------------------- */
/* statement C02: terminates (decreases clause in the loop contract), never reads outside the message, compression
 * pointers never loop or run forward (every pointer target is strictly below every label start seen so far: invariant),
 * success with a fully formed result or error with no result */
ares_status_t ares_dns_name_parse(ares_buf_t *buf, char **name, ares_bool_t is_hostname)
__CPROVER_requires(BUF_CONST_WF(buf) && buf->tag_offset == NOTAG)
__CPROVER_requires(name == NULL || __CPROVER_is_fresh(name, sizeof(*name)))
__CPROVER_requires(!g_out_consumed)
__CPROVER_assigns(buf->offset, g_out_consumed; name != NULL: *name)
__CPROVER_ensures(BUF_POS_OK(buf))
/* the temporary name buffer is consumed exactly once on success and on every malformed-name exit (no leak, no double release) */
__CPROVER_ensures((name != NULL && (__CPROVER_return_value == ARES_SUCCESS || __CPROVER_return_value == ARES_EBADNAME)) ==> g_out_consumed)
__CPROVER_ensures(name == NULL ==> !g_out_consumed)
__CPROVER_ensures(__CPROVER_return_value == ARES_SUCCESS ==> buf->offset > __CPROVER_old(buf->offset))
__CPROVER_ensures((__CPROVER_return_value == ARES_SUCCESS && name != NULL) ==> __CPROVER_is_fresh(*name, 1))
__CPROVER_ensures((__CPROVER_return_value != ARES_SUCCESS && name != NULL) ==> (*name == __CPROVER_old(*name) || *name == NULL))
__CPROVER_ensures(__CPROVER_return_value == ARES_SUCCESS || __CPROVER_return_value == ARES_EBADNAME || __CPROVER_return_value == ARES_ENOMEM)
;
void h_name_parse_skip(void) { ares_buf_t *b; ares_bool_t hn; g_out_consumed = 0; ares_dns_name_parse(b, NULL, hn); }
void h_name_parse(void) { ares_buf_t *b; char **n; ares_bool_t hn; __CPROVER_assume(n != NULL); g_out_consumed = 0; ares_dns_name_parse(b, n, hn); }
