/* specification text for struct ares_buf (include AFTER src/lib/str/ares_buf.c) */
#ifndef VERIF_BUF_SPEC_H
#define VERIF_BUF_SPEC_H
#ifndef VCAP
#define VCAP 70000 /* size cap on buffers: covers every DNS message (65535) plus the 2-byte TCP prefix */
#endif
#define NOTAG (~(size_t)0)
/* positions consistent */
#define BUF_POS_OK(b) ((b)->offset <= (b)->data_len && ((b)->tag_offset == NOTAG || (b)->tag_offset <= (b)->offset))
/* constant (parser input) buffer */
#define BUF_CONST_WF(b) (__CPROVER_is_fresh((b), sizeof(*(b))) && (b)->alloc_buf == NULL && (b)->alloc_buf_len == 0 && \
   (b)->data_len > 0 && (b)->data_len <= VCAP && __CPROVER_is_fresh((b)->data, (b)->data_len) && BUF_POS_OK(b))
/* dynamic (output / stream) buffer: either pristine or allocated with >= 1 spare byte for the terminator */
#define BUF_DYN_WF(b) (__CPROVER_is_fresh((b), sizeof(*(b))) && (b)->alloc_buf_len <= VCAP && BUF_POS_OK(b) && \
   (((b)->alloc_buf == NULL && (b)->data == NULL && (b)->alloc_buf_len == 0 && (b)->data_len == 0) || \
    ((b)->alloc_buf_len > 0 && __CPROVER_is_fresh((b)->alloc_buf, (b)->alloc_buf_len) && \
     __CPROVER_pointer_equals((b)->data, (b)->alloc_buf) && (b)->data_len < (b)->alloc_buf_len)))
/* the same, as a plain boolean for postconditions (no is_fresh) */
#define BUF_DYN_OK(b) (BUF_POS_OK(b) && (((b)->alloc_buf == NULL && (b)->data == NULL && (b)->alloc_buf_len == 0 && (b)->data_len == 0) || \
    ((b)->alloc_buf != NULL && (b)->data == (b)->alloc_buf && (b)->data_len < (b)->alloc_buf_len && \
     __CPROVER_rw_ok((b)->alloc_buf, (b)->alloc_buf_len))))
#define BE16_AT(d, o) ((unsigned short)(((unsigned)(d)[(o)] << 8) | (unsigned)(d)[(o) + 1]))
#define BE32_AT(d, o) (((unsigned)(d)[(o)] << 24) | ((unsigned)(d)[(o) + 1] << 16) | ((unsigned)(d)[(o) + 2] << 8) | (unsigned)(d)[(o) + 3])
#endif
