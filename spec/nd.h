/* nondeterministic harness inputs.  Every nondet call goes through a wrapper with a named local so that the value shows
 * up in the verifier's counterexample trace (assignment to nd_<type>::v) and can be replayed natively in call order. */
#ifndef VERIF_ND_H
#define VERIF_ND_H
#include <stddef.h>
#ifdef VERIF_NATIVE
/* native_shim.h defines nondet_* reading the recorded sequence */
_Bool nondet_bool(void); size_t nondet_size(void); unsigned char nondet_uchar(void); int nondet_int(void);
unsigned short nondet_u16(void); unsigned int nondet_uint(void); long long nondet_i64(void); unsigned char nondet_u8(void); unsigned int nondet_u32(void);
#else
_Bool __VERIFIER_nondet__Bool(void); size_t __VERIFIER_nondet_size_t(void); unsigned char __VERIFIER_nondet_uchar(void);
int __VERIFIER_nondet_int(void); unsigned short __VERIFIER_nondet_ushort(void); unsigned int __VERIFIER_nondet_uint(void);
long long __VERIFIER_nondet_longlong(void);
static _Bool          nondet_bool(void)  { _Bool v = __VERIFIER_nondet__Bool(); return v; }
static size_t         nondet_size(void)  { size_t v = __VERIFIER_nondet_size_t(); return v; }
static unsigned char  nondet_uchar(void) { unsigned char v = __VERIFIER_nondet_uchar(); return v; }
static int            nondet_int(void)   { int v = __VERIFIER_nondet_int(); return v; }
static unsigned short nondet_u16(void)   { unsigned short v = __VERIFIER_nondet_ushort(); return v; }
static unsigned int   nondet_uint(void)  { unsigned int v = __VERIFIER_nondet_uint(); return v; }
static long long      nondet_i64(void)   { long long v = __VERIFIER_nondet_longlong(); return v; }
static unsigned char  nondet_u8(void)    { unsigned char v = __VERIFIER_nondet_uchar(); return v; }
static unsigned int   nondet_u32(void)   { unsigned int v = __VERIFIER_nondet_uint(); return v; }
#endif
#endif
