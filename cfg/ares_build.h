#ifndef __CARES_BUILD_H
#define __CARES_BUILD_H
/*
 * Copyright (C) The c-ares project and its contributors
 * SPDX-License-Identifier: MIT
 */

#define CARES_TYPEOF_ARES_SOCKLEN_T socklen_t
#define CARES_TYPEOF_ARES_SSIZE_T ssize_t

/* Prefix names with CARES_ to make sure they don't conflict with other config.h
 * files.  We need to include some dependent headers that may be system specific
 * for C-Ares */
#define CARES_HAVE_SYS_TYPES_H
#define CARES_HAVE_SYS_SOCKET_H
#define CARES_HAVE_SYS_SELECT_H
/* #undef CARES_HAVE_WINDOWS_H */
/* #undef CARES_HAVE_WS2TCPIP_H */
/* #undef CARES_HAVE_WINSOCK2_H */
#define CARES_HAVE_ARPA_NAMESER_H
#define CARES_HAVE_ARPA_NAMESER_COMPAT_H

#ifdef CARES_HAVE_SYS_TYPES_H
#  include <sys/types.h>
#endif

#ifdef CARES_HAVE_SYS_SOCKET_H
#  include <sys/socket.h>
#endif

#ifdef CARES_HAVE_SYS_SELECT_H
#  include <sys/select.h>
#endif

#ifdef CARES_HAVE_WINSOCK2_H
#  include <winsock2.h>
#endif

#ifdef CARES_HAVE_WS2TCPIP_H
#  include <ws2tcpip.h>
#endif

#ifdef CARES_HAVE_WINDOWS_H
#  include <windows.h>
#endif

#endif /* __CARES_BUILD_H */
