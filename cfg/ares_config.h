/* Copyright (C) The c-ares project and its contributors
 * SPDX-License-Identifier: MIT
 */

/* Generated from ares_config.h.cmake */

/* Define if building universal (internal helper macro) */
#undef AC_APPLE_UNIVERSAL_BUILD

/* Defined for build with symbol hiding. */
/* #undef CARES_SYMBOL_HIDING */

/* Use resolver library to configure cares */
/* #undef CARES_USE_LIBRESOLV */

/* if a /etc/inet dir is being used */
#undef ETC_INET

/* Define to the type of arg 2 for gethostname. */
#define GETHOSTNAME_TYPE_ARG2 size_t

/* Define to the type qualifier of arg 1 for getnameinfo. */
#define GETNAMEINFO_QUAL_ARG1 

/* Define to the type of arg 1 for getnameinfo. */
#define GETNAMEINFO_TYPE_ARG1 struct sockaddr *

/* Define to the type of arg 2 for getnameinfo. */
#define GETNAMEINFO_TYPE_ARG2 socklen_t

/* Define to the type of args 4 and 6 for getnameinfo. */
#define GETNAMEINFO_TYPE_ARG46 socklen_t

/* Define to the type of arg 7 for getnameinfo. */
#define GETNAMEINFO_TYPE_ARG7 int

/* Specifies the number of arguments to getservbyport_r */
#define GETSERVBYPORT_R_ARGS 6

/* Specifies the number of arguments to getservbyname_r */
#define GETSERVBYNAME_R_ARGS 6

/* Define to 1 if you have AF_INET6. */
#define HAVE_AF_INET6 1

/* Define to 1 if you have the <arpa/inet.h> header file. */
#define HAVE_ARPA_INET_H 1

/* Define to 1 if you have the <arpa/nameser_compat.h> header file. */
#define HAVE_ARPA_NAMESER_COMPAT_H 1

/* Define to 1 if you have the <arpa/nameser.h> header file. */
#define HAVE_ARPA_NAMESER_H 1

/* Define to 1 if you have the <assert.h> header file. */
#define HAVE_ASSERT_H 1

/* Define to 1 if you have the clock_gettime function and monotonic timer. */
#define HAVE_CLOCK_GETTIME_MONOTONIC 1

/* Define to 1 if you have the closesocket function. */
/* #undef HAVE_CLOSESOCKET */

/* Define to 1 if you have the CloseSocket camel case function. */
/* #undef HAVE_CLOSESOCKET_CAMEL */

/* Define to 1 if you have the connect function. */
#define HAVE_CONNECT 1

/* Define to 1 if you have the connectx function. */
/* #undef HAVE_CONNECTX */

/* define if the compiler supports basic C++11 syntax */
/* #undef HAVE_CXX11 */

/* Define to 1 if you have the <dlfcn.h> header file. */
#define HAVE_DLFCN_H 1

/* Define to 1 if you have the <errno.h> header file. */
#define HAVE_ERRNO_H 1

/* Define to 1 if you have the <poll.h> header file. */
#define HAVE_POLL_H 1

/* Define to 1 if you have the memmem function. */
#define HAVE_MEMMEM 1

/* Define to 1 if you have the poll function. */
#define HAVE_POLL 1

/* Define to 1 if you have the pipe function. */
#define HAVE_PIPE 1

/* Define to 1 if you have the pipe2 function. */
#define HAVE_PIPE2 1

/* Define to 1 if you have the kqueue function. */
/* #undef HAVE_KQUEUE */

/* Define to 1 if you have the epoll{_create,ctl,wait} functions. */
#define HAVE_EPOLL 1

/* Define to 1 if you have the fcntl function. */
#define HAVE_FCNTL 1

/* Define to 1 if you have the <fcntl.h> header file. */
#define HAVE_FCNTL_H 1

/* Define to 1 if you have a working fcntl O_NONBLOCK function. */
#define HAVE_FCNTL_O_NONBLOCK 1

/* Define to 1 if you have the freeaddrinfo function. */
#define HAVE_FREEADDRINFO 1

/* Define to 1 if you have a working getaddrinfo function. */
#define HAVE_GETADDRINFO 1

/* Define to 1 if the getaddrinfo function is threadsafe. */
/* #undef HAVE_GETADDRINFO_THREADSAFE */

/* Define to 1 if you have the getenv function. */
#define HAVE_GETENV 1

/* Define to 1 if you have the gethostname function. */
#define HAVE_GETHOSTNAME 1

/* Define to 1 if you have the getnameinfo function. */
#define HAVE_GETNAMEINFO 1

/* Define to 1 if you have the getrandom function. */
#define HAVE_GETRANDOM 1

/* Define to 1 if you have the getservbyport_r function. */
#define HAVE_GETSERVBYPORT_R 1

/* Define to 1 if you have the getservbyname_r function. */
#define HAVE_GETSERVBYNAME_R 1

/* Define to 1 if you have the `gettimeofday' function. */
#define HAVE_GETTIMEOFDAY 1

/* Define to 1 if you have the `if_indextoname' function. */
#define HAVE_IF_INDEXTONAME 1

/* Define to 1 if you have the `if_nametoindex' function. */
#define HAVE_IF_NAMETOINDEX 1

/* Define to 1 if you have the `GetBestRoute2' function. */
/* #undef HAVE_GETBESTROUTE2 */

/* Define to 1 if you have the `WSAIoctl' function. */
/* #undef HAVE_WSAIOCTL */

/* Define to 1 if you have the `OVERLAPPED_ENTRY' data type. */
/* #undef HAVE_OVERLAPPED_ENTRY */

/* Define to 1 if you have the `GetQueuedCompletionStatusEx' function. */
/* #undef HAVE_GETQUEUEDCOMPLETIONSTATUSEX */

/* Define to 1 if you have the `ConvertInterfaceIndexToLuid' function. */
/* #undef HAVE_CONVERTINTERFACEINDEXTOLUID */

/* Define to 1 if you have the `ConvertInterfaceLuidToNameA' function. */
/* #undef HAVE_CONVERTINTERFACELUIDTONAMEA */

/* Define to 1 if you have the `NotifyIpInterfaceChange' function. */
/* #undef HAVE_NOTIFYIPINTERFACECHANGE */

/* Define to 1 if you have the `RegisterWaitForSingleObject' function. */
/* #undef HAVE_REGISTERWAITFORSINGLEOBJECT */

/* Define to 1 if you have the `SetFileCompletionNotificationModes' function. */
/* #undef HAVE_SETFILECOMPLETIONNOTIFICATIONMODES */

/* Define to 1 if you have a IPv6 capable working inet_net_pton function. */
/* #undef HAVE_INET_NET_PTON */

/* Define to 1 if you have a IPv6 capable working inet_ntop function. */
#define HAVE_INET_NTOP 1

/* Define to 1 if you have a IPv6 capable working inet_pton function. */
#define HAVE_INET_PTON 1

/* Define to 1 if you have the <inttypes.h> header file. */
#define HAVE_INTTYPES_H 1

/* Define to 1 if you have the ioctl function. */
#define HAVE_IOCTL 1

/* Define to 1 if you have the ioctlsocket function. */
/* #undef HAVE_IOCTLSOCKET */

/* Define to 1 if you have the IoctlSocket camel case function. */
/* #undef HAVE_IOCTLSOCKET_CAMEL */

/* Define to 1 if you have a working IoctlSocket camel case FIONBIO function.
   */
/* #undef HAVE_IOCTLSOCKET_CAMEL_FIONBIO */

/* Define to 1 if you have a working ioctlsocket FIONBIO function. */
/* #undef HAVE_IOCTLSOCKET_FIONBIO */

/* Define to 1 if you have a working ioctl FIONBIO function. */
#define HAVE_IOCTL_FIONBIO 1

/* Define to 1 if you have a working ioctl SIOCGIFADDR function. */
#define HAVE_IOCTL_SIOCGIFADDR 1

/* Define to 1 if you have the `resolve' library (-lresolve). */
/* #undef HAVE_LIBRESOLV */

/* Define to 1 if you have iphlpapi.h */
/* #undef HAVE_IPHLPAPI_H */

/* Define to 1 if you have netioapi.h */
/* #undef HAVE_NETIOAPI_H */

/* Define to 1 if you have the <limits.h> header file. */
#define HAVE_LIMITS_H 1

/* Define to 1 if the compiler supports the 'long long' data type. */
#define HAVE_LONGLONG 1

/* Define to 1 if you have the malloc.h header file. */
#define HAVE_MALLOC_H 1

/* Define to 1 if you have the memory.h header file. */
#define HAVE_MEMORY_H 1

/* Define to 1 if you have the AvailabilityMacros.h header file. */
/* #undef HAVE_AVAILABILITYMACROS_H */

/* Define to 1 if you have the MSG_NOSIGNAL flag. */
#define HAVE_MSG_NOSIGNAL 1

/* Define to 1 if you have the <netdb.h> header file. */
#define HAVE_NETDB_H 1

/* Define to 1 if you have the <netinet/in.h> header file. */
#define HAVE_NETINET_IN_H 1

/* Define to 1 if you have the <netinet6/in6.h> header file. */
/* #undef HAVE_NETINET6_IN6_H */

/* Define to 1 if you have the <netinet/tcp.h> header file. */
#define HAVE_NETINET_TCP_H 1

/* Define to 1 if you have the <net/if.h> header file. */
#define HAVE_NET_IF_H 1

/* Define to 1 if you have PF_INET6. */
#define HAVE_PF_INET6 1

/* Define to 1 if you have the recv function. */
#define HAVE_RECV 1

/* Define to 1 if you have the recvfrom function. */
#define HAVE_RECVFROM 1

/* Define to 1 if you have the send function. */
#define HAVE_SEND 1

/* Define to 1 if you have the sendto function. */
#define HAVE_SENDTO 1

/* Define to 1 if you have the setsockopt function. */
#define HAVE_SETSOCKOPT 1

/* Define to 1 if you have a working setsockopt SO_NONBLOCK function. */
/* #undef HAVE_SETSOCKOPT_SO_NONBLOCK */

/* Define to 1 if you have the <signal.h> header file. */
#define HAVE_SIGNAL_H 1

/* Define to 1 if you have the strnlen function. */
#define HAVE_STRNLEN 1

/* Define to 1 if your struct sockaddr_in6 has sin6_scope_id. */
#define HAVE_STRUCT_SOCKADDR_IN6_SIN6_SCOPE_ID 1

/* Define to 1 if you have the socket function. */
#define HAVE_SOCKET 1

/* Define to 1 if you have the <socket.h> header file. */
/* #undef HAVE_SOCKET_H */

/* Define to 1 if you have the <stdbool.h> header file. */
#define HAVE_STDBOOL_H 1

/* Define to 1 if you have the <stdint.h> header file. */
#define HAVE_STDINT_H 1

/* Define to 1 if you have the <stdlib.h> header file. */
#define HAVE_STDLIB_H 1

/* Define to 1 if you have the strcasecmp function. */
#define HAVE_STRCASECMP 1

/* Define to 1 if you have the strcmpi function. */
/* #undef HAVE_STRCMPI */

/* Define to 1 if you have the strdup function. */
#define HAVE_STRDUP 1

/* Define to 1 if you have the stricmp function. */
/* #undef HAVE_STRICMP */

/* Define to 1 if you have the <strings.h> header file. */
#define HAVE_STRINGS_H 1

/* Define to 1 if you have the <string.h> header file. */
#define HAVE_STRING_H 1

/* Define to 1 if you have the strncasecmp function. */
#define HAVE_STRNCASECMP 1

/* Define to 1 if you have the strncmpi function. */
/* #undef HAVE_STRNCMPI */

/* Define to 1 if you have the strnicmp function. */
/* #undef HAVE_STRNICMP */

/* Define to 1 if you have the <stropts.h> header file. */
/* #undef HAVE_STROPTS_H */

/* Define to 1 if you have struct addrinfo. */
#define HAVE_STRUCT_ADDRINFO 1

/* Define to 1 if you have struct in6_addr. */
#define HAVE_STRUCT_IN6_ADDR 1

/* Define to 1 if you have struct sockaddr_in6. */
#define HAVE_STRUCT_SOCKADDR_IN6 1

/* if struct sockaddr_storage is defined */
#define HAVE_STRUCT_SOCKADDR_STORAGE 1

/* Define to 1 if you have the timeval struct. */
#define HAVE_STRUCT_TIMEVAL 1

/* Define to 1 if you have the <sys/ioctl.h> header file. */
#define HAVE_SYS_IOCTL_H 1

/* Define to 1 if you have the <sys/param.h> header file. */
#define HAVE_SYS_PARAM_H 1

/* Define to 1 if you have the <sys/random.h> header file. */
#define HAVE_SYS_RANDOM_H 1

/* Define to 1 if you have the <sys/event.h> header file. */
/* #undef HAVE_SYS_EVENT_H */

/* Define to 1 if you have the <sys/epoll.h> header file. */
#define HAVE_SYS_EPOLL_H 1

/* Define to 1 if you have the <sys/select.h> header file. */
#define HAVE_SYS_SELECT_H 1

/* Define to 1 if you have the <sys/socket.h> header file. */
#define HAVE_SYS_SOCKET_H 1

/* Define to 1 if you have the <sys/stat.h> header file. */
#define HAVE_SYS_STAT_H 1

/* Define to 1 if you have the <sys/time.h> header file. */
#define HAVE_SYS_TIME_H 1

/* Define to 1 if you have the <sys/types.h> header file. */
#define HAVE_SYS_TYPES_H 1

/* Define to 1 if you have the <sys/uio.h> header file. */
#define HAVE_SYS_UIO_H 1

/* Define to 1 if you have the <time.h> header file. */
#define HAVE_TIME_H 1

/* Define to 1 if you have the <ifaddrs.h> header file. */
#define HAVE_IFADDRS_H 1

/* Define to 1 if you have the <unistd.h> header file. */
#define HAVE_UNISTD_H 1

/* Define to 1 if you have the windows.h header file. */
/* #undef HAVE_WINDOWS_H */

/* Define to 1 if you have the winsock2.h header file. */
/* #undef HAVE_WINSOCK2_H */

/* Define to 1 if you have the winsock.h header file. */
/* #undef HAVE_WINSOCK_H */

/* Define to 1 if you have the mswsock.h header file. */
/* #undef HAVE_MSWSOCK_H */

/* Define to 1 if you have the winternl.h header file. */
/* #undef HAVE_WINTERNL_H */

/* Define to 1 if you have the ntstatus.h header file. */
/* #undef HAVE_NTSTATUS_H */

/* Define to 1 if you have the ntdef.h header file. */
/* #undef HAVE_NTDEF_H */

/* Define to 1 if you have the writev function. */
#define HAVE_WRITEV 1

/* Define to 1 if you have the ws2tcpip.h header file. */
/* #undef HAVE_WS2TCPIP_H */

/* Define to 1 if you have the __system_property_get function */
/* #undef HAVE___SYSTEM_PROPERTY_GET */

/* Define if have arc4random_buf() */
#define HAVE_ARC4RANDOM_BUF 1

/* Define if have getifaddrs() */
#define HAVE_GETIFADDRS 1

/* Define if have stat() */
#define HAVE_STAT 1

/* a suitable file/device to read random data from */
#define CARES_RANDOM_FILE "/dev/urandom"

/* Define to the type qualifier pointed by arg 5 for recvfrom. */
#define RECVFROM_QUAL_ARG5 

/* Define to the type of arg 1 for recvfrom. */
#define RECVFROM_TYPE_ARG1 int

/* Define to the type pointed by arg 2 for recvfrom. */
#define RECVFROM_TYPE_ARG2 void *

/* Define to 1 if the type pointed by arg 2 for recvfrom is void. */
#define RECVFROM_TYPE_ARG2_IS_VOID 0

/* Define to the type of arg 3 for recvfrom. */
#define RECVFROM_TYPE_ARG3 size_t

/* Define to the type of arg 4 for recvfrom. */
#define RECVFROM_TYPE_ARG4 int

/* Define to the type pointed by arg 5 for recvfrom. */
#define RECVFROM_TYPE_ARG5 struct sockaddr *

/* Define to 1 if the type pointed by arg 5 for recvfrom is void. */
#define RECVFROM_TYPE_ARG5_IS_VOID 0

/* Define to the type pointed by arg 6 for recvfrom. */
#define RECVFROM_TYPE_ARG6 socklen_t *

/* Define to 1 if the type pointed by arg 6 for recvfrom is void. */
#define RECVFROM_TYPE_ARG6_IS_VOID 0

/* Define to the function return type for recvfrom. */
#define RECVFROM_TYPE_RETV ssize_t

/* Define to the type of arg 1 for recv. */
#define RECV_TYPE_ARG1 int

/* Define to the type of arg 2 for recv. */
#define RECV_TYPE_ARG2 void *

/* Define to the type of arg 3 for recv. */
#define RECV_TYPE_ARG3 size_t

/* Define to the type of arg 4 for recv. */
#define RECV_TYPE_ARG4 int

/* Define to the function return type for recv. */
#define RECV_TYPE_RETV ssize_t

/* Define to the type of arg 1 for send. */
#define SEND_TYPE_ARG1 int

/* Define to the type of arg 2 for send. */
#define SEND_TYPE_ARG2 const void *

/* Define to the type of arg 3 for send. */
#define SEND_TYPE_ARG3 size_t

/* Define to the type of arg 4 for send. */
#define SEND_TYPE_ARG4 int

/* Define to the function return type for send. */
#define SEND_TYPE_RETV ssize_t

/* Define to disable non-blocking sockets. */
#undef USE_BLOCKING_SOCKETS

/* Define to avoid automatic inclusion of winsock.h */
#undef WIN32_LEAN_AND_MEAN

/* Define to 1 if you have the pthread.h header file. */
#define HAVE_PTHREAD_H 1

/* Define to 1 if you have the pthread_np.h header file. */
/* #undef HAVE_PTHREAD_NP_H */

/* Define to 1 if threads are enabled */
#define CARES_THREADS 1

/* Define to 1 if pthread_init() exists */
/* #undef HAVE_PTHREAD_INIT */

