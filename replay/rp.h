/* tiny reader for the "<lhs>=<value>" inputs file that vcheck writes next to a replay file */
#ifndef RP_H
#define RP_H
#include <stdio.h>
#include <stdlib.h>
#include <string.h>
#include <signal.h>
#include <unistd.h>
static char rp_keys[4096][96]; static char rp_vals[4096][96]; static int rp_n;
static void rp_load(const char *path)
{
  FILE *f = fopen(path, "r"); char line[512];
  if (!f) { fprintf(stderr, "cannot open %s\n", path); exit(0); }
  while (fgets(line, sizeof line, f) && rp_n < 4096) {
    char *eq = strchr(line, '='); if (!eq) continue; *eq = 0;
    char *k = line; while (*k == ' ') k++; char *e = k + strlen(k); while (e > k && e[-1] == ' ') *--e = 0;
    char *v = eq + 1; while (*v == ' ') v++; e = v + strlen(v); while (e > v && (e[-1] == '\n' || e[-1] == ' ')) *--e = 0;
    snprintf(rp_keys[rp_n], 96, "%s", k); snprintf(rp_vals[rp_n], 96, "%s", v); rp_n++;
  }
  fclose(f);
}
/* last value whose key ends with suffix (e.g. ".data_len") ; returns dflt when absent */
static unsigned long long rp_num_suffix(const char *suffix, unsigned long long dflt)
{
  int i; size_t sl = strlen(suffix);
  for (i = rp_n - 1; i >= 0; i--) { size_t kl = strlen(rp_keys[i]);
    if (kl >= sl && !strcmp(rp_keys[i] + kl - sl, suffix)) { char *v = rp_vals[i]; if (*v == '-') return (unsigned long long)strtoll(v, 0, 10); if (*v >= '0' && *v <= '9') return strtoull(v, 0, 10); if (!strncmp(v, "TRUE", 4) || !strncmp(v, "True", 4)) return 1; if (!strncmp(v, "FALSE", 5) || !strncmp(v, "False", 5)) return 0; } }
  return dflt;
}
/* first dynamic object that has the given field: value of that field */
static unsigned long long rp_field_first(const char *field, unsigned long long dflt)
{
  int i; size_t sl = strlen(field);
  for (i = 0; i < rp_n; i++) { size_t kl = strlen(rp_keys[i]);
    if (!strncmp(rp_keys[i], "dynamic_object", 14) && kl >= sl && !strcmp(rp_keys[i] + kl - sl, field)) {
      /* take the LAST assignment to this same key */
      int j, last = i; for (j = i; j < rp_n; j++) if (!strcmp(rp_keys[j], rp_keys[i])) last = j;
      return strtoull(rp_vals[last], 0, 10); } }
  return dflt;
}
static void rp_alarm(int s) { (void)s; const char m[] = "REPLAY: call did not terminate within 5 s\n"; write(2, m, sizeof m - 1); _exit(3); }
#define RP_FAIL(...) do { fprintf(stderr, "REPLAY: postcondition violated natively: " __VA_ARGS__); fprintf(stderr, "\n"); exit(1); } while (0)
#endif
