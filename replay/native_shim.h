/* native replay of harness-style obligations: the SAME wrapper TU (real /repo .c files + harness) is compiled with
 * clang -fsanitize=address,undefined; nondet_*() return the values of the verifier's counterexample in call order;
 * __CPROVER_assume(false) = input rejected (exit 0); __CPROVER_assert(false) = violation reproduced (exit 1). */
#ifndef NATIVE_SHIM_H
#define NATIVE_SHIM_H
#include <stdio.h>
#include <stdlib.h>
#include <string.h>
#include <stddef.h>
#include <malloc.h>
static char nd_fn[8192][40]; static unsigned long long nd_val[8192]; static int nd_n, nd_pos;
static void nd_load(const char *path)
{
  FILE *f = fopen(path, "r"); char line[512];
  if (!f) return;
  while (fgets(line, sizeof line, f) && nd_n < 8192) {
    if (strncmp(line, "nondet:", 7)) continue;
    char *eq = strchr(line, '='); if (!eq) continue; *eq = 0;
    snprintf(nd_fn[nd_n], 40, "%s", line + 7);
    char *v = eq + 1;
    if (!strncmp(v, "TRUE", 4) || !strncmp(v, "True", 4)) nd_val[nd_n] = 1;
    else if (!strncmp(v, "FALSE", 5) || !strncmp(v, "False", 5)) nd_val[nd_n] = 0;
    else if (*v == '-') nd_val[nd_n] = (unsigned long long)strtoll(v, 0, 10);
    else nd_val[nd_n] = strtoull(v, 0, 10);
    nd_n++;
  }
  fclose(f);
}
static unsigned long long nd_next(const char *fn)
{
  /* take the next recorded value of this nondet function (values beyond the recorded trace are 0) */
  for (; nd_pos < nd_n; nd_pos++) if (!strcmp(nd_fn[nd_pos], fn)) return nd_val[nd_pos++];
  return 0;
}
#define NDF(type, name) type name(void) { return (type)nd_next(#name); }
NDF(_Bool, nondet_bool) NDF(size_t, nondet_size) NDF(unsigned char, nondet_uchar) NDF(int, nondet_int)
NDF(unsigned short, nondet_u16) NDF(unsigned int, nondet_uint) NDF(long long, nondet_i64) NDF(unsigned short, nondet_ushort)
NDF(unsigned char, nondet_u8) NDF(unsigned int, nondet_u32)
#define __CPROVER_assume(c) do { if (!(c)) { fprintf(stderr, "REPLAY: counterexample rejected by harness assumption: %s\n", #c); exit(0); } } while (0)
#define __CPROVER_assert(c, msg) do { if (!(c)) { fprintf(stderr, "REPLAY: violated natively: %s\n", msg); exit(1); } } while (0)
#define __CPROVER_OBJECT_SIZE(p) malloc_usable_size((void *)(p))
#define __CPROVER_r_ok(p, n) 1
#define __CPROVER_w_ok(p, n) 1
#define __CPROVER_rw_ok(p, n) 1
#define __CPROVER_havoc_slice(p, n) ((void)0)
#define __CPROVER_array_set(p, v) ((void)0)
#ifdef VERIF_HARNESS
void VERIF_HARNESS(void);
int main(int argc, char **argv) { if (argc > 1) nd_load(argv[1]); VERIF_HARNESS(); fprintf(stderr, "REPLAY: harness completed, no native failure\n"); return 0; }
#endif
#endif
