/* native replay for the "constant input buffer" family (ares_buf.c readers, name decoding).
 * usage: buf_reader <inputs-file> <function>
 * The verifier's counterexample fixes the buffer geometry (data_len, offset, tag) and the scalar arguments; byte
 * contents of symbolic arrays are not part of a CBMC trace, so they are searched (fixed fill patterns + seeded random
 * messages biased towards compression pointers).  The buffer is an exact-size heap block: ASan sees any over-read. */
#include "src/lib/str/ares_buf.c"
#include "src/lib/record/ares_dns_name.c"
#include "src/lib/str/ares_str.c"
#include "src/lib/dsa/ares_array.c"
#include "src/lib/dsa/ares_llist.c"
#include "src/lib/util/ares_math.c"
#include "rp.h"
static size_t g_len, g_off, g_tag;
static unsigned char *mk(unsigned pat, unsigned seed)
{
  unsigned char *d = malloc(g_len ? g_len : 1); size_t i;
  srand(seed);
  for (i = 0; i < g_len; i++) {
    switch (pat) {
      case 0: d[i] = 0x00; break; case 1: d[i] = 0xFF; break; case 2: d[i] = ' '; break; case 3: d[i] = '\n'; break;
      case 4: d[i] = 'a'; break; case 5: d[i] = 0x01; break; case 6: d[i] = 0x3F; break; case 7: d[i] = 0xC0; break;
      case 8: d[i] = (i % 2 == 0) ? 0xC0 : (unsigned char)((rand() % 16) * 2); break; /* pointers to small even offsets */
      case 9: d[i] = (unsigned char)((rand() % 4 == 0) ? 0xC0 : rand() % 8); break;
      default: d[i] = (unsigned char)rand(); break;
    }
  }
  return d;
}
#define POS_OK(b) ((b)->offset <= (b)->data_len && ((b)->tag_offset == SIZE_MAX || (b)->tag_offset <= (b)->offset))
int main(int argc, char **argv)
{
  const char *fn = argc > 2 ? argv[2] : ""; unsigned pat, round;
  rp_load(argv[1]);
  g_len = rp_field_first(".data_len", 16); g_off = rp_field_first(".offset", 0); g_tag = rp_field_first(".tag_offset", SIZE_MAX);
  size_t len = rp_num_suffix("len", 1); int flag = (int)rp_num_suffix("include_linefeed", rp_num_suffix("null_term", rp_num_suffix("is_hostname", 0)));
  if (g_len > (1u << 20)) g_len = 1u << 20;
  printf("replay %s: data_len=%zu offset=%zu tag=%zu len=%zu flag=%d\n", fn, g_len, g_off, g_tag, len, flag);
  signal(SIGALRM, rp_alarm);
  for (round = 0; round < 400; round++) {
    pat = round < 10 ? round : 8 + round % 3;
    unsigned char *d = mk(pat, round);
    ares_buf_t b; memset(&b, 0, sizeof b); b.data = d; b.data_len = g_len; b.offset = g_off; b.tag_offset = g_tag;
    size_t old = b.offset; ares_status_t rv = ARES_SUCCESS; size_t r = 0;
    alarm(5);
    if (!strcmp(fn, "ares_buf_fetch_be16")) { unsigned short v; rv = ares_buf_fetch_be16(&b, &v); if (rv == ARES_SUCCESS && (b.offset != old + 2 || v != ((d[old] << 8) | d[old + 1]))) RP_FAIL("be16 value/position"); if (rv != ARES_SUCCESS && b.offset != old) RP_FAIL("offset moved on failure"); }
    else if (!strcmp(fn, "ares_buf_fetch_be32")) { unsigned int v; rv = ares_buf_fetch_be32(&b, &v); if (rv == ARES_SUCCESS && (b.offset != old + 4 || v != (((unsigned)d[old] << 24) | (d[old + 1] << 16) | (d[old + 2] << 8) | d[old + 3]))) RP_FAIL("be32 value/position"); if (rv != ARES_SUCCESS && b.offset != old) RP_FAIL("offset moved on failure"); }
    else if (!strcmp(fn, "ares_buf_consume")) { rv = ares_buf_consume(&b, len); if ((rv == ARES_SUCCESS) != (len <= g_len - old)) RP_FAIL("consume accepted/rejected wrongly"); }
    else if (!strcmp(fn, "ares_buf_fetch_bytes")) { unsigned char *o = malloc(len ? len : 1); rv = ares_buf_fetch_bytes(&b, o, len); if (rv == ARES_SUCCESS && (b.offset != old + len || memcmp(o, d + old, len))) RP_FAIL("fetch_bytes"); free(o); }
    else if (!strcmp(fn, "ares_buf_fetch_bytes_dup")) { unsigned char *o = NULL; rv = ares_buf_fetch_bytes_dup(&b, len, flag, &o); if (rv == ARES_SUCCESS && (b.offset != old + len || memcmp(o, d + old, len) || (flag && o[len] != 0))) RP_FAIL("fetch_bytes_dup"); free(o); }
    else if (!strcmp(fn, "ares_buf_fetch_str_dup")) { char *o = NULL; rv = ares_buf_fetch_str_dup(&b, len, &o); if (rv == ARES_SUCCESS && (b.offset != old + len || o[len] != 0)) RP_FAIL("fetch_str_dup"); free(o); }
    else if (!strcmp(fn, "ares_buf_tag_fetch_string")) { char *o = malloc(len ? len : 1); rv = ares_buf_tag_fetch_string(&b, o, len); if (rv == ARES_SUCCESS && o[b.offset - b.tag_offset] != 0) RP_FAIL("not terminated"); free(o); }
    else if (!strcmp(fn, "ares_buf_tag_rollback")) { rv = ares_buf_tag_rollback(&b); if (rv == ARES_SUCCESS && (b.offset != g_tag || b.tag_offset != SIZE_MAX)) RP_FAIL("rollback"); }
    else if (!strcmp(fn, "ares_buf_consume_whitespace")) { r = ares_buf_consume_whitespace(&b, flag); if (b.offset != old + r) RP_FAIL("position"); }
    else if (!strcmp(fn, "ares_buf_consume_nonwhitespace")) { r = ares_buf_consume_nonwhitespace(&b); if (b.offset != old + r) RP_FAIL("position"); }
    else if (!strcmp(fn, "ares_buf_consume_line")) { r = ares_buf_consume_line(&b, flag); if (b.offset != old + r) RP_FAIL("position"); }
    else if (!strcmp(fn, "ares_dns_name_parse") || !strcmp(fn, "ares_dns_name_parse_skip")) {
      char *name = NULL; rv = ares_dns_name_parse(&b, strcmp(fn, "ares_dns_name_parse") ? NULL : &name, flag);
      if (rv == ARES_SUCCESS && b.offset <= old) RP_FAIL("name decoding succeeded without advancing");
      if (rv != ARES_SUCCESS && rv != ARES_EBADNAME && rv != ARES_ENOMEM) RP_FAIL("unexpected status %d", (int)rv);
      ares_free(name); }
    else if (!strcmp(fn, "ares_fetch_dnsname_into_buf")) { ares_buf_t *o = ares_buf_create(); rv = ares_fetch_dnsname_into_buf(&b, o, len, flag); if (rv == ARES_SUCCESS && b.offset != old + len) RP_FAIL("label position"); ares_buf_destroy(o); }
    else { printf("no native dispatch for %s\n", fn); return 0; }
    alarm(0);
    if (!POS_OK(&b)) RP_FAIL("buffer positions inconsistent after the call (offset %zu data_len %zu tag %zu)", b.offset, b.data_len, b.tag_offset);
    free(d);
  }
  printf("replay: no native failure in %u candidate inputs\n", round);
  return 0;
}
/* allocator of the library (ares_library_init.c not linked) */
void *ares_malloc(size_t n) { return malloc(n); }
void  ares_free(void *p) { free(p); }
void *ares_realloc(void *p, size_t n) { return realloc(p, n); }
void *ares_malloc_zero(size_t n) { return calloc(1, n); }
void *ares_realloc_zero(void *p, size_t o, size_t n) { void *q = realloc(p, n); if (q && n > o) memset((char *)q + o, 0, n - o); return q; }
