/* virtual datagram transport for public-API demonstrations: sockets are real descriptors (so numbers are unique), nothing is sent;
 * the test scripts which send fails and what is received */
#include <stdio.h>
#include <string.h>
#include <errno.h>
#include <unistd.h>
#include <sys/socket.h>
#include <sys/uio.h>
#include <netinet/in.h>
#include "ares.h"
static int vs_send_count, vs_fail_send_no = -1, vs_last_fd = -1; static unsigned char vs_last_q[512]; static size_t vs_last_qlen; static unsigned char vs_rx[512]; static size_t vs_rxlen;
static ares_socket_t vs_socket(int af, int type, int proto, void *u) { int fd = socket(af, type, proto); vs_last_fd = fd; return fd; }
static int vs_close(ares_socket_t s, void *u) { return close(s); }
static int vs_connect(ares_socket_t s, const struct sockaddr *a, ares_socklen_t l, void *u) { return 0; }
static ares_ssize_t vs_recvfrom(ares_socket_t s, void *b, size_t l, int f, struct sockaddr *from, ares_socklen_t *fl, void *u)
{
  if (vs_rxlen == 0) { errno = EWOULDBLOCK; return -1; }
  size_t n = vs_rxlen < l ? vs_rxlen : l; memcpy(b, vs_rx, n); vs_rxlen = 0;
  if (from && fl && *fl >= sizeof(struct sockaddr_in)) { struct sockaddr_in sa; memset(&sa, 0, sizeof(sa)); sa.sin_family = AF_INET; sa.sin_port = htons(53); sa.sin_addr.s_addr = htonl(0x7f000001); memcpy(from, &sa, sizeof(sa)); *fl = sizeof(sa); }
  return (ares_ssize_t)n;
}
static ares_ssize_t vs_sendv(ares_socket_t s, const struct iovec *v, int n, void *u)
{
  vs_send_count++;
  if (vs_send_count == vs_fail_send_no) { fprintf(stderr, "  [transport] send #%d fails with ECONNREFUSED\n", vs_send_count); errno = ECONNREFUSED; return -1; }
  size_t tot = 0; vs_last_qlen = 0; for (int i = 0; i < n; i++) { if (vs_last_qlen + v[i].iov_len <= sizeof(vs_last_q)) { memcpy(vs_last_q + vs_last_qlen, v[i].iov_base, v[i].iov_len); vs_last_qlen += v[i].iov_len; } tot += v[i].iov_len; }
  fprintf(stderr, "  [transport] send #%d ok (%zu bytes, fd %d)\n", vs_send_count, tot, (int)s); return (ares_ssize_t)tot;
}
static const struct ares_socket_functions vs_funcs = { vs_socket, vs_close, vs_connect, vs_recvfrom, vs_sendv };
/* queue a reply to the last query sent: same id and question, QR set, given rcode, no records */
static void vs_reply_last(int rcode)
{
  size_t qend = 12; while (qend < vs_last_qlen && vs_last_q[qend] != 0) qend += 1 + vs_last_q[qend]; qend += 5;
  memcpy(vs_rx, vs_last_q, qend); vs_rx[2] = 0x81; vs_rx[3] = (unsigned char)(0x80 | rcode); vs_rx[4] = 0; vs_rx[5] = 1; vs_rx[6] = vs_rx[7] = vs_rx[8] = vs_rx[9] = vs_rx[10] = vs_rx[11] = 0; vs_rxlen = qend;
}
static ares_channel_t *vs_channel(int tries, const char *domains_csv_unused)
{
  ares_channel_t *ch; struct ares_options o; memset(&o, 0, sizeof(o)); o.tries = tries; o.timeout = 2000; o.flags = ARES_FLAG_NOCHECKRESP; o.lookups = "b";
  ares_library_init(ARES_LIB_INIT_ALL);
  if (ares_init_options(&ch, &o, ARES_OPT_TRIES | ARES_OPT_TIMEOUTMS | ARES_OPT_FLAGS | ARES_OPT_LOOKUPS) != ARES_SUCCESS) return NULL;
  ares_set_servers_csv(ch, "127.0.0.1"); ares_set_socket_functions(ch, &vs_funcs, NULL); return ch;
}
