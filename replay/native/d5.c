#include <stdio.h>
#include <string.h>
#include <sys/select.h>
#include "ares.h"
static int calls; static ares_channel_t *ch;
static void cb(void *arg, int status, int timeouts, unsigned char *abuf, int alen){
  calls++; fprintf(stderr,"callback #%d status=%d (%s)\n", calls, status, ares_strerror(status));
  if (calls==1) ares_cancel(ch);          /* application cancels from inside a completion callback */
}
int main(void){
  struct ares_options o; memset(&o,0,sizeof(o)); o.tries=1; o.timeout=100;
  ares_library_init(ARES_LIB_INIT_ALL);
  ares_init_options(&ch,&o,ARES_OPT_TRIES|ARES_OPT_TIMEOUTMS);
  ares_set_servers_csv(ch,"127.0.0.1:9");
  ares_query(ch,"example.com",1,1,cb,NULL);
  for(int i=0;i<50 && calls==0;i++){ fd_set r,w; FD_ZERO(&r);FD_ZERO(&w); int n=ares_fds(ch,&r,&w); struct timeval tv={0,50000}; if(n) select(n,&r,&w,NULL,&tv); else break; ares_process(ch,&r,&w);} 
  fprintf(stderr,"total callbacks for ONE request: %d\n", calls);
  ares_destroy(ch); return 0;
}
