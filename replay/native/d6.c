#include <stdio.h>
#include <string.h>
#include "ares.h"
static int calls;
static void cb(void *arg, int status, int timeouts, unsigned char *abuf, int alen){ calls++; fprintf(stderr,"callback #%d status=%d (%s)\n", calls, status, ares_strerror(status)); }
int main(void){
  ares_channel_t *ch; struct ares_options o; memset(&o,0,sizeof(o)); char *doms[]={"example.com"}; o.domains=doms; o.ndomains=1;
  ares_library_init(ARES_LIB_INIT_ALL);
  ares_init_options(&ch,&o,ARES_OPT_DOMAINS);
  ares_set_servers_csv(ch,"127.0.0.1:9");
  char name[600]=""; for(int i=0;i<62;i++) strcat(name,"\\097");
  fprintf(stderr,"name text length %zu, wire length 72\n", strlen(name));
  ares_search(ch,name,1,1,cb,NULL);
  fprintf(stderr,"total callbacks for ONE request: %d\n", calls);
  ares_destroy(ch); return 0;
}
