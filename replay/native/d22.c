/* C01: ares_cancel() invokes the ECANCELLED callback while the request is still linked to its connection.  A callback that
 * starts a new request whose transmission fails closes that connection, which completes the SAME request a second time. */
#include "vsock.h"
static ares_channel_t *ch; static int calls_a, calls_c;
static void cb_c(void *arg, int status, int timeouts, unsigned char *abuf, int alen) { calls_c++; fprintf(stderr, "callback C #%d status=%s\n", calls_c, ares_strerror(status)); }
static void cb_a(void *arg, int status, int timeouts, unsigned char *abuf, int alen)
{
  calls_a++; fprintf(stderr, "callback A #%d status=%s\n", calls_a, ares_strerror(status));
  if (calls_a == 1) { vs_fail_send_no = vs_send_count + 1; ares_query(ch, "c.example", 1, 1, cb_c, NULL); }   /* a new request from inside the callback */
}
int main(void)
{
  ch = vs_channel(1, NULL); if (!ch) return 2;
  ares_query(ch, "a.example", 1, 1, cb_a, NULL);
  ares_cancel(ch);
  fprintf(stderr, "callbacks for request A: %d (must be 1)\n", calls_a);
  ares_destroy(ch); ares_library_cleanup();
  if (calls_a != 1) { fprintf(stderr, "REPLAY: violated C01 (request completed %d times)\n", calls_a); return 1; }
  return 0;
}
