#!/bin/sh
# build a public-API demonstration against the real library sources of $VERIF_REPO (default /repo), with ASan/UBSan
# usage: build_demo.sh <demo.c> <out-exe>
set -e
REPO=${VERIF_REPO:-/repo}; V=$(cd "$(dirname "$0")/../.." && pwd)
SRCS=$(find $REPO/src/lib -name '*.c' ! -path '*/thirdparty/*' ! -name 'ares_sysconfig_win.c' ! -name 'ares_sysconfig_mac.c' ! -name 'ares_event_win32.c' ! -name 'ares_event_configchg.c' ! -name 'ares_android.c' ! -name 'windows_port.c')
exec clang -g -O0 -w -fsanitize=address,undefined -fno-omit-frame-pointer -DHAVE_CONFIG_H=1 -DCARES_BUILDING_LIBRARY -DCARES_STATICLIB -D_GNU_SOURCE \
  -I$V/cfg -I$REPO/include -I$REPO/src/lib -I$REPO/src/lib/include "$1" $SRCS $REPO/src/lib/event/ares_event_configchg.c -o "$2" -lpthread
