#include <stdio.h>
#include <string.h>
#include <unistd.h>
#include <sys/select.h>
#include <sys/socket.h>
#include <netinet/in.h>
#include <netdb.h>
#include "ares.h"
static int calls; static unsigned int seen_ttl; static int legacy_ttl=-1;
static void cb(void *arg, ares_status_t status, size_t timeouts, const ares_dns_record_t *rec){ calls++;
  if(status==ARES_SUCCESS && ares_dns_record_rr_cnt(rec,ARES_SECTION_ANSWER)){ seen_ttl=ares_dns_rr_get_ttl(ares_dns_record_rr_get_const(rec,ARES_SECTION_ANSWER,0));
    unsigned char*b; size_t l; if(ares_dns_write(rec,&b,&l)==ARES_SUCCESS){ struct ares_addrttl at[1]; int n=1; struct hostent*h=NULL; if(ares_parse_a_reply(b,(int)l,&h,at,&n)==ARES_SUCCESS){ legacy_ttl=at[0].ttl; ares_free_hostent(h);} ares_free_string(b);} }
  fprintf(stderr,"  callback status=%d record-API ttl=%u legacy(write+parse) ttl=%d\n",(int)status,seen_ttl,legacy_ttl); }
static int answer(unsigned char*q,int qlen,unsigned char*out){ memcpy(out,q,qlen); out[2]|=0x80; out[3]=0x80; out[7]=1; out[11]=0; int n=qlen; /* strip additional (OPT) count but keep bytes: simpler to rebuild */ 
  return n; }
int main(void){
  int s=socket(AF_INET,SOCK_DGRAM,0); struct sockaddr_in a; memset(&a,0,sizeof a); a.sin_family=AF_INET; a.sin_port=htons(5393); a.sin_addr.s_addr=htonl(INADDR_LOOPBACK); bind(s,(struct sockaddr*)&a,sizeof a);
  ares_channel_t *ch; struct ares_options o; memset(&o,0,sizeof o); o.flags=0; o.qcache_max_ttl=3600;
  ares_library_init(ARES_LIB_INIT_ALL); ares_init_options(&ch,&o,ARES_OPT_FLAGS|ARES_OPT_QUERY_CACHE);
  ares_set_servers_csv(ch,"127.0.0.1:5393");
  for(int round=0; round<2; round++){
    ares_dns_record_t *q=NULL; ares_dns_record_create_query(&q,"example.com",ARES_CLASS_IN,ARES_REC_TYPE_A,0,ARES_FLAG_RD,0);
    fprintf(stderr,"request %d%s\n",round+1,round?" (2 s later, expected to be served from the cache with ttl 58)":"");
    calls=0; ares_send_dnsrec(ch,q,cb,NULL,NULL); ares_dns_record_destroy(q);
    for(int step=0; step<40 && !calls; step++){ fd_set r,w; FD_ZERO(&r);FD_ZERO(&w); int n=ares_fds(ch,&r,&w); struct timeval tv={0,50000}; if(n) select(n,&r,&w,NULL,&tv); ares_process(ch,&r,&w);
      unsigned char qb[512],ans[600]; struct sockaddr_in f; socklen_t fl=sizeof f; int nq=recvfrom(s,qb,sizeof qb,MSG_DONTWAIT,(struct sockaddr*)&f,&fl);
      if(nq>0){ fprintf(stderr,"  (server saw a transmission)\n"); memcpy(ans,qb,nq); ans[2]|=0x80; ans[3]=0x80; ans[7]=1; unsigned char rr[]={0xc0,0x0c,0,1,0,1,0,0,0,60,0,4,10,0,0,7}; memcpy(ans+nq,rr,sizeof rr); sendto(s,ans,nq+sizeof rr,0,(struct sockaddr*)&f,fl);} }
    if(!round) sleep(2);
  }
  ares_destroy(ch); return 0; }
