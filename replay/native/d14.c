#include <stdio.h>
#include <string.h>
#include <unistd.h>
#include <sys/select.h>
#include <sys/socket.h>
#include <netinet/in.h>
#include <arpa/inet.h>
#include <netdb.h>
#include "ares.h"
static int calls; static int final_status=-1; static int got_addr;
static void cb(void *arg, int status, int timeouts, unsigned char *abuf, int alen){ calls++; final_status=status;
  struct hostent *h=NULL; if(status==ARES_SUCCESS && ares_parse_a_reply(abuf,alen,&h,NULL,NULL)==ARES_SUCCESS){ got_addr=((unsigned char*)h->h_addr_list[0])[3]; ares_free_hostent(h);} 
  fprintf(stderr,"callback status=%d timeouts=%d last-octet-of-answer=%d\n",status,timeouts,got_addr); }
static int mksrv(unsigned short port){ int s=socket(AF_INET,SOCK_DGRAM,0); struct sockaddr_in a; memset(&a,0,sizeof a); a.sin_family=AF_INET; a.sin_port=htons(port); a.sin_addr.s_addr=htonl(INADDR_LOOPBACK); bind(s,(struct sockaddr*)&a,sizeof a); return s; }
/* build an A answer echoing the query id/question, address 10.0.0.<tag> */
static int answer(unsigned char*q,int qlen,unsigned char*out,unsigned char tag){ memcpy(out,q,qlen); out[2]|=0x80; out[3]=0x80; out[7]=1; int n=qlen; unsigned char rr[]={0xc0,0x0c,0,1,0,1,0,0,0,60,0,4,10,0,0,tag}; memcpy(out+n,rr,sizeof rr); return n+sizeof rr; }
int main(void){
  int sa=mksrv(5391), sb=mksrv(5392); ares_channel_t *ch; struct ares_options o; memset(&o,0,sizeof o);
  o.tries=2; o.timeout=150; o.flags=ARES_FLAG_STAYOPEN|ARES_FLAG_NOCHECKRESP; /* no EDNS -> no cookies */
  ares_library_init(ARES_LIB_INIT_ALL); ares_init_options(&ch,&o,ARES_OPT_TRIES|ARES_OPT_TIMEOUTMS|ARES_OPT_FLAGS);
  ares_set_servers_csv(ch,"127.0.0.1:5391,127.0.0.1:5392");
  ares_query(ch,"example.com",1,1,cb,NULL);
  unsigned char qa[512],qb[512],ans[600]; struct sockaddr_in fa,fb; socklen_t la=sizeof fa, lb=sizeof fb; int na=0,nb=0;
  for(int step=0; step<40 && !calls; step++){
    fd_set r,w; FD_ZERO(&r);FD_ZERO(&w); int n=ares_fds(ch,&r,&w); struct timeval tv={0,50000}; select(n,&r,&w,NULL,&tv); ares_process(ch,&r,&w);
    if(!na){ na=recvfrom(sa,qa,sizeof qa,MSG_DONTWAIT,(struct sockaddr*)&fa,&la); if(na<0)na=0; else fprintf(stderr,"server A got the query (stays silent)\n"); }
    if(!nb){ nb=recvfrom(sb,qb,sizeof qb,MSG_DONTWAIT,(struct sockaddr*)&fb,&lb); if(nb<0)nb=0;
      if(nb){ fprintf(stderr,"query was re-sent to server B; server B stays silent; NOW server A answers late (10.0.0.1)\n"); int l=answer(qa,na,ans,1); sendto(sa,ans,l,0,(struct sockaddr*)&fa,la);} }
  }
  fprintf(stderr,"callbacks=%d final=%d -> answer came from server %s while the query was assigned to B\n",calls,final_status, got_addr==1?"A":"?");
  ares_destroy(ch); return 0; }
