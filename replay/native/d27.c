/* (a) C14 (D27): ares_getaddrinfo() of a literal address leaks the result object when the allocation of its address node fails.
 * (b) C13 (D28): an IPv4 literal asked for with ai_family = AF_INET6 is returned as an AF_INET address. */
#include <stdio.h>
#include <stdlib.h>
#include <string.h>
#include <sys/socket.h>
#include "ares.h"
static long n_alloc, fail_at, live; static int cb_calls, cb_status, cb_family;
static void *m_malloc(size_t n) { n_alloc++; if (n_alloc == fail_at) return NULL; void *p = malloc(n); if (p) live++; return p; }
static void m_free(void *p) { if (p) { live--; free(p); } }
static void *m_realloc(void *p, size_t n) { n_alloc++; if (n_alloc == fail_at) return NULL; if (p == NULL) live++; return realloc(p, n); }
static void cb(void *arg, int status, int timeouts, struct ares_addrinfo *res) { cb_calls++; cb_status = status; cb_family = (res && res->nodes) ? res->nodes->ai_family : -1; if (res) ares_freeaddrinfo(res); }
int main(int argc, char **argv)
{
  int bad_a = 0, bad_b = 0; ares_channel_t *ch; struct ares_options o; memset(&o, 0, sizeof(o)); o.lookups = "b";
  ares_library_init_mem(ARES_LIB_INIT_ALL, m_malloc, m_free, m_realloc); fail_at = 0;
  if (ares_init_options(&ch, &o, ARES_OPT_LOOKUPS) != ARES_SUCCESS) return 2; ares_set_servers_csv(ch, "127.0.0.1");
  struct ares_addrinfo_hints h; memset(&h, 0, sizeof(h)); h.ai_family = AF_UNSPEC;
  for (long k = 1; k < 50; k++) {
    long live0 = live; cb_calls = 0; n_alloc = 0; fail_at = k;
    ares_getaddrinfo(ch, "192.0.2.7", NULL, &h, cb, NULL); fail_at = 0;
    int reached = n_alloc >= k;
    if (cb_calls != 1) { fprintf(stderr, "(a) allocation #%ld failed: %d callbacks\n", k, cb_calls); bad_a = 1; }
    if (live != live0) { fprintf(stderr, "(a) allocation #%ld failed (status %s): %ld allocation(s) leaked\n", k, ares_strerror(cb_status), live - live0); bad_a = 1; live = live0; }
    if (!reached) break;
  }
  h.ai_family = AF_INET6; cb_calls = 0; ares_getaddrinfo(ch, "192.0.2.7", NULL, &h, cb, NULL);
  fprintf(stderr, "(b) literal 192.0.2.7 with ai_family=AF_INET6: status %s, first address family %s\n", ares_strerror(cb_status), cb_family == AF_INET ? "AF_INET" : (cb_family == AF_INET6 ? "AF_INET6" : "none"));
  if (cb_calls == 1 && cb_status == ARES_SUCCESS && cb_family != AF_INET6) bad_b = 1;
  ares_destroy(ch); ares_library_cleanup();
  const char *which = argc > 1 ? argv[1] : "ab";
  if ((bad_a && strchr(which, 'a')) || (bad_b && strchr(which, 'b'))) { fprintf(stderr, "REPLAY: violated %s%s\n", bad_a && strchr(which, 'a') ? "C14 " : "", bad_b && strchr(which, 'b') ? "C13" : ""); return 1; }
  return 0;
}
