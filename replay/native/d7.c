/* C01: a request being transmitted is used after a sibling's completion callback cancelled (released) it.
 * Request B's transmission fails -> the connection is closed -> sibling A (out of tries) completes -> A's callback calls
 * ares_cancel(), which completes and releases B -> ares_send_query() goes on to requeue the released B. */
#include "vsock.h"
static ares_channel_t *ch; static int calls_a, calls_b;
static void cb_b(void *arg, int status, int timeouts, unsigned char *abuf, int alen) { calls_b++; fprintf(stderr, "callback B #%d status=%s\n", calls_b, ares_strerror(status)); }
static void cb_a(void *arg, int status, int timeouts, unsigned char *abuf, int alen) { calls_a++; fprintf(stderr, "callback A #%d status=%s -> ares_cancel()\n", calls_a, ares_strerror(status)); ares_cancel(ch); }
int main(void)
{
  ch = vs_channel(1, NULL); if (!ch) return 2;
  ares_query(ch, "a.example", 1, 1, cb_a, NULL);
  vs_fail_send_no = vs_send_count + 1;
  ares_query(ch, "b.example", 1, 1, cb_b, NULL);
  fprintf(stderr, "callbacks: A=%d B=%d (each must be 1)\n", calls_a, calls_b);
  ares_destroy(ch); ares_library_cleanup();
  if (calls_a != 1 || calls_b != 1) { fprintf(stderr, "REPLAY: violated C01\n"); return 1; }
  return 0;
}
