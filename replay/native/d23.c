/* C16: options saved from a channel and used to initialise a new one give the same settings.
 * (a) D24: ARES_OPT_TIMEOUT|ARES_OPT_TIMEOUTMS with timeout -1 ("use the default"): the saved mask carries ARES_OPT_TIMEOUT but
 *     options.timeout is never written, so the copy's timeout is whatever the caller's struct held (ares_dup(): uninitialised).
 * (b) D23: ARES_OPT_TIMEOUT with 3000000 seconds: saved as a negative int, the copy falls back to the default. */
#include <stdio.h>
#include <string.h>
#include "ares.h"
static int timeout_of(ares_channel_t *ch) { struct ares_options o; int m = 0; memset(&o, 0, sizeof(o)); ares_save_options(ch, &o, &m); int t = (m & ARES_OPT_TIMEOUTMS) ? o.timeout : -12345; ares_destroy_options(&o); return t; }
int main(void)
{
  int bad = 0; ares_library_init(ARES_LIB_INIT_ALL);
  { ares_channel_t *a, *b; struct ares_options o, s; int m = 0; memset(&o, 0, sizeof(o)); o.timeout = -1;
    ares_init_options(&a, &o, ARES_OPT_TIMEOUT | ARES_OPT_TIMEOUTMS); ares_set_servers_csv(a, "127.0.0.1");
    memset(&s, 0, sizeof(s)); s.timeout = 7;                      /* what happened to be in the caller's struct */
    ares_save_options(a, &s, &m);
    fprintf(stderr, "(a) saved mask has ARES_OPT_TIMEOUT=%d ARES_OPT_TIMEOUTMS=%d, options.timeout=%d\n", !!(m & ARES_OPT_TIMEOUT), !!(m & ARES_OPT_TIMEOUTMS), s.timeout);
    ares_init_options(&b, &s, m); ares_set_servers_csv(b, "127.0.0.1");
    fprintf(stderr, "(a) original timeout %d ms, copy %d ms\n", timeout_of(a), timeout_of(b));
    if ((m & ARES_OPT_TIMEOUT) && !(m & ARES_OPT_TIMEOUTMS)) bad = 1;
    ares_destroy_options(&s); ares_destroy(a); ares_destroy(b); }
  { ares_channel_t *a, *b; struct ares_options o, s; int m = 0; memset(&o, 0, sizeof(o)); o.timeout = 3000000;
    ares_init_options(&a, &o, ARES_OPT_TIMEOUT); ares_set_servers_csv(a, "127.0.0.1");
    memset(&s, 0, sizeof(s)); ares_save_options(a, &s, &m);
    fprintf(stderr, "(b) 3000000 s saved as options.timeout=%d (mask TIMEOUTMS=%d)\n", s.timeout, !!(m & ARES_OPT_TIMEOUTMS));
    ares_init_options(&b, &s, m); ares_set_servers_csv(b, "127.0.0.1");
    int tb = timeout_of(b); fprintf(stderr, "(b) copy timeout %d\n", tb);
    if (s.timeout <= 0 || tb != s.timeout) bad = 1;
    ares_destroy_options(&s); ares_destroy(a); ares_destroy(b); }
  ares_library_cleanup();
  if (bad) { fprintf(stderr, "REPLAY: violated C16 (saved options do not reproduce the channel)\n"); return 1; }
  return 0;
}
