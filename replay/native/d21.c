#include <ares.h>
#include <stdio.h>
#include <string.h>
int main(int argc, char **argv) {
  ares_library_init(ARES_LIB_INIT_ALL);
  struct ares_options o; memset(&o,0,sizeof o); o.resolvconf_path = argv[1];
  ares_channel_t *ch = NULL; int rc = ares_init_options(&ch, &o, ARES_OPT_RESOLVCONF);
  printf("init rc=%d (%s)\n", rc, ares_strerror(rc));
  if (rc == 0) { char *s = ares_get_servers_csv(ch); printf("servers=%s\n", s); ares_free_string(s); struct ares_options so; int m; ares_save_options(ch,&so,&m); printf("ndots=%d ndomains=%d tries=%d\n", so.ndots, so.ndomains, so.tries); ares_destroy_options(&so); ares_destroy(ch);} 
  return 0; }
