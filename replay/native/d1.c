#include <stdio.h>
#include <string.h>
#include "ares_private.h"
int main(void){
  /* llist insert_before in the middle */
  ares_llist_t *l = ares_llist_create(NULL);
  int a=1,b=2,c=3;
  ares_llist_node_t *na = ares_llist_insert_last(l,&a);
  ares_llist_node_t *nc = ares_llist_insert_last(l,&c);
  ares_llist_insert_before(nc,&b);
  printf("llist forward:");
  for (ares_llist_node_t *n=ares_llist_node_first(l); n; n=ares_llist_node_next(n)) printf(" %d", *(int*)ares_llist_node_val(n));
  printf("  (len=%zu)\n", ares_llist_len(l));
  /* array insertdata_first */
  ares_array_t *arr = ares_array_create(sizeof(int), NULL);
  int x=10,y=20; ares_array_insertdata_last(arr,&x); ares_array_insertdata_first(arr,&y);
  printf("array after last(10), first(20): [%d,%d]\n", *(int*)ares_array_at(arr,0), *(int*)ares_array_at(arr,1));
  /* front drain */
  ares_array_t *ar2 = ares_array_create(sizeof(int), NULL);
  for(int i=0;i<4;i++) ares_array_insertdata_last(ar2,&i);
  for(int i=0;i<4;i++) ares_array_remove_first(ar2);
  printf("insert after draining 4 from front: status=%d\n", (int)ares_array_insertdata_last(ar2,&x));
  /* raw rr with empty rdata */
  unsigned char msg[] = {0,1,0x80,0,0,1,0,1,0,0,0,0, 1,'a',0,0,1,0,1, 1,'a',0, 0xff,0x00, 0,1, 0,0,0,5, 0,0};
  ares_dns_record_t *rec=NULL; ares_status_t st=ares_dns_parse(msg,sizeof(msg),0,&rec);
  printf("parse=%d", (int)st);
  if(st==ARES_SUCCESS){ const ares_dns_rr_t *rr=ares_dns_record_rr_get_const(rec,ARES_SECTION_ANSWER,0);
    printf(" rr type=%d raw_type=%u", (int)ares_dns_rr_get_type(rr), ares_dns_rr_get_u16(rr,ARES_RR_RAW_RR_TYPE));
    unsigned char *out; size_t olen; printf(" rewrite=%d\n",(int)ares_dns_write(rec,&out,&olen)); }
  return 0;
}
