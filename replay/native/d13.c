#include <stdio.h>
#include <string.h>
#include "ares_private.h"
static void dump(const char*t,const ares_dns_record_t*r){ printf("%s:",t); for(size_t i=0;i<ares_dns_record_rr_cnt(r,ARES_SECTION_ANSWER);i++){ const ares_dns_rr_t*rr=ares_dns_record_rr_get_const(r,ARES_SECTION_ANSWER,i); printf(" [%s -> %s]", ares_dns_rr_get_name(rr), ares_dns_rr_get_str(rr,ARES_RR_CNAME_CNAME)); } printf("\n"); }
int main(void){
  ares_dns_record_t *rec=NULL,*back=NULL; ares_dns_rr_t *rr;
  ares_dns_record_create(&rec,1,ARES_FLAG_QR,ARES_OPCODE_QUERY,ARES_RCODE_NOERROR);
  ares_dns_record_query_add(rec,"www.example.com",ARES_REC_TYPE_A,ARES_CLASS_IN);
  ares_dns_record_rr_add(&rr,rec,ARES_SECTION_ANSWER,"www.example.com",ARES_REC_TYPE_CNAME,ARES_CLASS_IN,60);
  ares_dns_rr_set_str(rr,ARES_RR_CNAME_CNAME,"host.example.com");
  dump("original",rec);
  /* D13: the frame the library hands to sockets */
  ares_buf_t *b=ares_buf_create(); ares_status_t st=ares_dns_write_buf_tcp(rec,b);
  size_t len; const unsigned char*p=ares_buf_peek(b,&len);
  printf("tcp frame: status=%d len=%zu prefix=%u\n",(int)st,len,(p[0]<<8)|p[1]);
  st=ares_dns_parse(p+2,len-2,0,&back); printf("re-parse of framed message: %d (%s)\n",(int)st,ares_strerror(st)); if(st==ARES_SUCCESS) dump("reparsed",back);
  /* same record through plain write for comparison */
  unsigned char*o; size_t ol; ares_dns_write(rec,&o,&ol); ares_dns_record_t*b2=NULL; st=ares_dns_parse(o,ol,0,&b2); printf("plain write re-parse: %d\n",(int)st); if(st==ARES_SUCCESS) dump("plain   ",b2);
  return 0; }
