#include <stdio.h>
#include <string.h>
#include "ares_private.h"
int main(void){
  ares_dns_record_t *rec=NULL,*back=NULL; ares_dns_rr_t *rr; char big[251]; memset(big,'x',250); big[250]=0;
  ares_dns_record_create(&rec,1,ARES_FLAG_QR,ARES_OPCODE_QUERY,ARES_RCODE_NOERROR);
  ares_dns_record_query_add(rec,"a.example.com",ARES_REC_TYPE_TXT,ARES_CLASS_IN);
  for(int i=0;i<70;i++){ ares_dns_record_rr_add(&rr,rec,ARES_SECTION_ANSWER,"a.example.com",ARES_REC_TYPE_TXT,ARES_CLASS_IN,60); ares_dns_rr_add_abin(rr,ARES_RR_TXT_DATA,(unsigned char*)big,250); }
  ares_dns_record_rr_add(&rr,rec,ARES_SECTION_ANSWER,"late.other.org",ARES_REC_TYPE_TXT,ARES_CLASS_IN,60); ares_dns_rr_add_abin(rr,ARES_RR_TXT_DATA,(unsigned char*)"1",1);
  ares_dns_record_rr_add(&rr,rec,ARES_SECTION_ANSWER,"late.other.org",ARES_REC_TYPE_TXT,ARES_CLASS_IN,60); ares_dns_rr_add_abin(rr,ARES_RR_TXT_DATA,(unsigned char*)"2",1);
  unsigned char*o; size_t ol; ares_status_t st=ares_dns_write(rec,&o,&ol); printf("write=%d len=%zu\n",(int)st,ol);
  st=ares_dns_parse(o,ol,0,&back); printf("re-parse=%d (%s)\n",(int)st,ares_strerror(st));
  if(st==ARES_SUCCESS){ size_t n=ares_dns_record_rr_cnt(back,ARES_SECTION_ANSWER); printf("last rr name: wrote 'late.other.org' read '%s'\n", ares_dns_rr_get_name(ares_dns_record_rr_get_const(back,ARES_SECTION_ANSWER,n-1))); }
  return 0; }
