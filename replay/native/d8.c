/* C01: the connection being read is released from inside a completion callback and used afterwards.
 * A search's first candidate is answered NXDOMAIN; the search's own follow-up query is transmitted on the same UDP
 * connection from inside the completion, the transmission fails, the connection is closed and freed, and read_answers()
 * (the function of CVE-2025-31498) continues with it. */
#include "vsock.h"
static ares_channel_t *ch; static int calls;
static void cb(void *arg, int status, int timeouts, unsigned char *abuf, int alen) { calls++; fprintf(stderr, "callback #%d status=%s\n", calls, ares_strerror(status)); }
int main(void)
{
  ch = vs_channel(2, NULL); if (!ch) return 2;
  ares_set_servers_csv(ch, "127.0.0.1"); ares_set_socket_functions(ch, &vs_funcs, NULL);
  { struct ares_options o; int m; }
  /* two search domains through the public option interface */
  ares_destroy(ch);
  { struct ares_options o; memset(&o, 0, sizeof(o)); char *doms[2] = { "one.test", "two.test" }; o.tries = 2; o.timeout = 2000; o.flags = ARES_FLAG_NOCHECKRESP; o.lookups = "b"; o.domains = doms; o.ndomains = 2; o.ndots = 1;
    if (ares_init_options(&ch, &o, ARES_OPT_TRIES | ARES_OPT_TIMEOUTMS | ARES_OPT_FLAGS | ARES_OPT_LOOKUPS | ARES_OPT_DOMAINS | ARES_OPT_NDOTS) != ARES_SUCCESS) return 2;
    ares_set_servers_csv(ch, "127.0.0.1"); ares_set_socket_functions(ch, &vs_funcs, NULL); }
  ares_search(ch, "host", 1, 1, cb, NULL);          /* candidate host.one.test is sent */
  vs_reply_last(3 /* NXDOMAIN */);                   /* the server answers: no such name */
  vs_fail_send_no = vs_send_count + 1;               /* the follow-up transmission (host.two.test) will fail */
  ares_process_fd(ch, vs_last_fd, ARES_SOCKET_BAD);  /* read the answer */
  fprintf(stderr, "survived; callbacks so far: %d\n", calls);
  ares_destroy(ch); ares_library_cleanup();
  return 0;
}
