/* C01/C14: ares_send_nolock() invokes the callback BEFORE releasing the request on its allocation-failure paths.  When the failing
 * allocation is the id-index insertion the request is already in all_queries: a callback that calls ares_cancel() completes it a
 * second time (ECANCELLED) and frees it, after which ares_send_nolock() frees it again. */
#include <stdio.h>
#include <stdlib.h>
#include <string.h>
#include "ares.h"
static long n_alloc, fail_at; static int calls; static ares_channel_t *ch;
static void *m_malloc(size_t n) { n_alloc++; if (n_alloc == fail_at) return NULL; return malloc(n); }
static void m_free(void *p) { free(p); }
static void *m_realloc(void *p, size_t n) { n_alloc++; if (n_alloc == fail_at) return NULL; return realloc(p, n); }
static void cb(void *arg, int status, int timeouts, unsigned char *abuf, int alen) { calls++; fprintf(stderr, "  callback #%d status=%s\n", calls, ares_strerror(status)); if (status == ARES_ENOMEM) ares_cancel(ch); }
int main(void)
{
  struct ares_options o; memset(&o, 0, sizeof(o)); o.lookups = "b"; o.tries = 1; o.timeout = 100; int bad = 0;
  ares_library_init_mem(ARES_LIB_INIT_ALL, m_malloc, m_free, m_realloc);
  if (ares_init_options(&ch, &o, ARES_OPT_LOOKUPS | ARES_OPT_TRIES | ARES_OPT_TIMEOUTMS) != ARES_SUCCESS) return 2; ares_set_servers_csv(ch, "127.0.0.1:9");
  for (long k = 1; k < 120 && !bad; k++) {
    calls = 0; n_alloc = 0; fail_at = k; fprintf(stderr, "failing allocation #%ld\n", k);
    ares_query(ch, "example.com", 1, 1, cb, NULL); fail_at = 0;
    if (n_alloc < k) break;
    if (calls > 1) { fprintf(stderr, "allocation #%ld failed: %d callbacks for one request\n", k, calls); bad = 1; }
    ares_cancel(ch);
  }
  ares_destroy(ch); ares_library_cleanup();
  if (bad) { fprintf(stderr, "REPLAY: violated C01\n"); return 1; }
  return 0;
}
