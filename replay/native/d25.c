/* C14: failing ONE allocation while a response with an empty <character-string> (HINFO "" "") is parsed:
 *   (a) ares_dns_parse() reports success although the string could not be allocated (the getter returns NULL), and
 *   (b) the temporary buffer object is leaked (ares_buf_finish_bin() neither returns nor releases it).
 * Every allocation index is failed in turn; live allocations are counted by the allocator itself. */
#include <stdio.h>
#include <stdlib.h>
#include <string.h>
#include "ares.h"
static long n_alloc, fail_at, live;
static void *m_malloc(size_t n) { n_alloc++; if (n_alloc == fail_at) return NULL; void *p = malloc(n); if (p) live++; return p; }
static void m_free(void *p) { if (p) { live--; free(p); } }
static void *m_realloc(void *p, size_t n) { n_alloc++; if (n_alloc == fail_at) return NULL; if (p == NULL) live++; return realloc(p, n); }
int main(void)
{
  /* id 1, QR, 1 question example. A IN? no: question "a." HINFO IN; 1 answer: a. HINFO IN ttl 60 rdlen 2: "" "" */
  static const unsigned char msg[] = { 0,1, 0x81,0x80, 0,1, 0,1, 0,0, 0,0,  1,'a',0, 0,13, 0,1,   1,'a',0, 0,13, 0,1, 0,0,0,60, 0,2, 0, 0 };
  int bad = 0; ares_library_init_mem(ARES_LIB_INIT_ALL, m_malloc, m_free, m_realloc);
  for (fail_at = 1; fail_at < 200; fail_at++) {
    ares_dns_record_t *rec = NULL; n_alloc = 0; long live0 = live;
    ares_status_t st = ares_dns_parse(msg, sizeof(msg), 0, &rec);
    int reached = n_alloc >= fail_at;
    if (st == ARES_SUCCESS) {
      const ares_dns_rr_t *rr = ares_dns_record_rr_get_const(rec, ARES_SECTION_ANSWER, 0);
      const char *cpu = ares_dns_rr_get_str(rr, ARES_RR_HINFO_CPU), *os = ares_dns_rr_get_str(rr, ARES_RR_HINFO_OS);
      if (reached && (cpu == NULL || os == NULL)) { fprintf(stderr, "allocation #%ld failed: ares_dns_parse() = SUCCESS but HINFO cpu=%p os=%p (string missing)\n", fail_at, (void *)cpu, (void *)os); bad = 1; }
    }
    ares_dns_record_destroy(rec);
    if (live != live0) { fprintf(stderr, "allocation #%ld failed: %ld allocation(s) leaked (status %s)\n", fail_at, live - live0, ares_strerror(st)); bad = 1; live = live0; }
    if (!reached) break;
  }
  ares_library_cleanup();
  if (bad) { fprintf(stderr, "REPLAY: violated C14\n"); return 1; }
  fprintf(stderr, "every single allocation failure was reported and nothing leaked\n"); return 0;
}
