/* C07/C06: with the event thread and ARES_FLAG_STAYOPEN, a query transmitted on an idle, kept-open UDP connection changes no
 * socket interest, so nothing wakes the event thread: it keeps sleeping without a deadline and the query's timeout never fires
 * when the reply is lost. */
#include <stdio.h>
#include <string.h>
#include <unistd.h>
#include <time.h>
#include <arpa/inet.h>
#include <sys/socket.h>
#include <sys/time.h>
#include "ares.h"
static volatile int done1, done2, st2;
static void cb1(void *arg, int status, int timeouts, unsigned char *abuf, int alen) { fprintf(stderr, "callback 1: %s\n", ares_strerror(status)); done1 = 1; }
static void cb2(void *arg, int status, int timeouts, unsigned char *abuf, int alen) { fprintf(stderr, "callback 2: %s (timeouts=%d)\n", ares_strerror(status), timeouts); st2 = status; done2 = 1; }
int main(void)
{
  int s = socket(AF_INET, SOCK_DGRAM, 0); struct sockaddr_in sa; memset(&sa, 0, sizeof(sa)); sa.sin_family = AF_INET; sa.sin_addr.s_addr = htonl(INADDR_LOOPBACK); sa.sin_port = 0;
  if (bind(s, (struct sockaddr *)&sa, sizeof(sa)) != 0) { perror("bind"); return 2; } socklen_t sl = sizeof(sa); getsockname(s, (struct sockaddr *)&sa, &sl);
  struct timeval tv = { 2, 0 }; setsockopt(s, SOL_SOCKET, SO_RCVTIMEO, &tv, sizeof(tv));
  ares_library_init(ARES_LIB_INIT_ALL); if (!ares_threadsafety()) { fprintf(stderr, "no thread support\n"); return 2; }
  ares_channel_t *ch; struct ares_options o; memset(&o, 0, sizeof(o)); o.evsys = ARES_EVSYS_DEFAULT; o.flags = ARES_FLAG_STAYOPEN | ARES_FLAG_NOCHECKRESP; o.timeout = 300; o.tries = 1; o.lookups = "b";
  if (ares_init_options(&ch, &o, ARES_OPT_EVENT_THREAD | ARES_OPT_FLAGS | ARES_OPT_TIMEOUTMS | ARES_OPT_TRIES | ARES_OPT_LOOKUPS) != ARES_SUCCESS) { fprintf(stderr, "init failed\n"); return 2; }
  char csv[64]; snprintf(csv, sizeof(csv), "127.0.0.1:%d", ntohs(sa.sin_port)); ares_set_servers_ports_csv(ch, csv);
  ares_query(ch, "one.example", 1, 1, cb1, NULL);
  unsigned char q[512]; struct sockaddr_in from; socklen_t fl = sizeof(from); ssize_t n = recvfrom(s, q, sizeof(q), 0, (struct sockaddr *)&from, &fl);
  if (n < 12) { fprintf(stderr, "server got nothing\n"); return 2; }
  q[2] |= 0x80; q[3] = 0x80; q[6] = q[7] = q[8] = q[9] = q[10] = q[11] = 0; size_t qend = 12; while (q[qend]) qend += 1 + q[qend]; qend += 5; sendto(s, q, qend, 0, (struct sockaddr *)&from, fl);
  for (int i = 0; i < 200 && !done1; i++) usleep(10000);
  if (!done1) { fprintf(stderr, "first query did not complete\n"); return 2; }
  usleep(200000);                                   /* the event thread is now asleep: nothing outstanding, connection kept open */
  struct timespec t0, t1; clock_gettime(CLOCK_MONOTONIC, &t0);
  ares_query(ch, "two.example", 1, 1, cb2, NULL);   /* timeout 300 ms, one try; the server stays silent */
  for (int i = 0; i < 300 && !done2; i++) usleep(10000);
  clock_gettime(CLOCK_MONOTONIC, &t1); long ms = (t1.tv_sec - t0.tv_sec) * 1000 + (t1.tv_nsec - t0.tv_nsec) / 1000000;
  if (!done2) fprintf(stderr, "second query (timeout 300 ms, 1 try): NO completion after %ld ms\n", ms); else fprintf(stderr, "second query completed after %ld ms\n", ms);
  int bad = !done2 || ms > 1500;
  ares_destroy(ch); ares_library_cleanup(); close(s);
  if (bad) { fprintf(stderr, "REPLAY: violated C07 (the timeout of a query sent on an idle kept-open connection did not fire)\n"); return 1; }
  return 0;
}
