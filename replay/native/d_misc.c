#include <stdio.h>
#include <string.h>
#include <stdlib.h>
#include "ares.h"
#include "ares_dns_record.h"
int main(int argc,char**argv){
  ares_library_init(ARES_LIB_INIT_ALL);
  if(argc>1 && !strcmp(argv[1],"d18")){
    ares_channel_t *ch; struct ares_options o; memset(&o,0,sizeof o); o.flags=ARES_FLAG_NOSEARCH; /* user explicitly sets flags, no USEVC */
    ares_init_options(&ch,&o,ARES_OPT_FLAGS);
    struct ares_options s; int m; ares_save_options(ch,&s,&m);
    printf("D18: user flags=0x%x, effective flags=0x%x (USEVC=0x1 %s)\n",o.flags,s.flags,(s.flags&ARES_FLAG_USEVC)?"FORCED ON by environment":"unchanged");
    ares_destroy_options(&s); ares_destroy(ch);
  } else if(argc>1 && !strcmp(argv[1],"d17")){
    ares_channel_t *ch; ares_init(&ch); ares_destroy(ch); ares_library_cleanup(); /* run under valgrind with RES_OPTIONS=timeout:0 */
  } else {
    /* D10/D11: one TXT RR whose RDATA exceeds 65535 bytes */
    ares_dns_record_t *rec=NULL,*back=NULL; ares_dns_rr_t *rr; static unsigned char chunk[255]; memset(chunk,'y',255);
    ares_dns_record_create(&rec,1,ARES_FLAG_QR,ARES_OPCODE_QUERY,ARES_RCODE_NOERROR);
    ares_dns_record_query_add(rec,"a.example.com",ARES_REC_TYPE_TXT,ARES_CLASS_IN);
    ares_dns_record_rr_add(&rr,rec,ARES_SECTION_ANSWER,"a.example.com",ARES_REC_TYPE_TXT,ARES_CLASS_IN,60);
    for(int i=0;i<260;i++) ares_dns_rr_add_abin(rr,ARES_RR_TXT_DATA,chunk,255);
    unsigned char*o; size_t ol; ares_status_t st=ares_dns_write(rec,&o,&ol);
    printf("D10/D11: write status=%d length=%zu (limit 65535)\n",(int)st,ol);
    if(st==ARES_SUCCESS){ st=ares_dns_parse(o,ol>65535?65535:ol,0,&back); printf("          re-parse of first 65535 bytes: %d (%s)\n",(int)st,ares_strerror(st)); }
  }
  return 0; }
